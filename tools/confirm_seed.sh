#!/bin/bash
# usage: confirm_seed.sh <outdir of agent, e.g. /tmp/wt/C19.out/1> <seed id, e.g. C19-1>
# Confirms a seeded defect in a fresh scratch worktree: demo passes on the clean tree, fails with the
# patch, and the repository's baseline packages still pass with the patch. Stores the result in /verif/seeded/<id>/.
set -u
export GOFLAGS=-mod=mod GOPROXY=off GOSUMDB=off GOTOOLCHAIN=local
SRC=$1; ID=$2
DST=/verif/seeded/$ID
WT=/tmp/confirm_$ID
mkdir -p $DST
cp $SRC/patch.diff $SRC/meta.json $DST/ 2>/dev/null
for f in $SRC/*_test.go $SRC/*.go; do [ -f "$f" ] && cp $f $DST/; done
git -C /repo worktree remove --force $WT 2>/dev/null
git -C /repo worktree add --detach $WT HEAD -q || exit 2
/verif/bin/vcheck --repo $WT --emit-overlay $WT.ov
DEMO_PATH=$(python3 -c "import json;print(json.load(open('$SRC/meta.json'))['demo_path_in_repo'])")
DEMO_CMD=$(python3 -c "import json;print(json.load(open('$SRC/meta.json'))['demo_cmd'])")
DEMO_FILE=$(basename $DEMO_PATH)
# normalise the command to this worktree
PROP=${ID%%-*}
DEMO_CMD=$(echo "$DEMO_CMD" | sed "s#/tmp/wt/$PROP.ov#$WT.ov#g; s#/tmp/wt/$PROP#$WT#g; s#export [^;&]*[;&]*##g; s#^ *cd [^;&]*[;&]* *##")
LOG=$DST/confirm.log
{
echo "== seed $ID; demo=$DEMO_PATH; cmd=$DEMO_CMD"
cd $WT
cp $SRC/$DEMO_FILE $WT/$DEMO_PATH 2>/dev/null || cp $SRC/*_test.go $WT/$(dirname $DEMO_PATH)/
echo "-- clean tree"
bash -c "$DEMO_CMD" 2>&1 | tail -5; CLEAN=${PIPESTATUS[0]}
echo "clean exit=$CLEAN"
git apply $SRC/patch.diff || echo "PATCH DOES NOT APPLY"
echo "-- with patch"
bash -c "$DEMO_CMD" 2>&1 | tail -15; PATCHED=${PIPESTATUS[0]}
echo "patched exit=$PATCHED"
rm -f $WT/$DEMO_PATH
echo "-- baseline packages with patch"
go build -overlay $WT.ov/overlay.json ./... 2>&1 | tail -3; echo "build exit=$?"
go test -vet=off -count=1 -timeout 20m ./common/... ./rpc/... ./keystore/... ./rlp/... ./crypto/... ./blockchain/fee/... ./blockchain/types/... ./config/... ./secstore/... 2>&1 | grep -v "^ok\|no test files" | tail -10
echo "baseline exit=${PIPESTATUS[0]}"
} > $LOG 2>&1
cd /
git -C /repo worktree remove --force $WT
rm -rf $WT.ov
grep -E "exit=|PATCH DOES" $LOG | tr '\n' ' '; echo
