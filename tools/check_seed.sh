#!/bin/bash
# usage: check_seed.sh <seed id> [property]   — runs the property's check against a scratch copy of /repo with the seeded patch applied
export GOFLAGS=-mod=mod GOPROXY=off GOSUMDB=off GOTOOLCHAIN=local
ID=$1; PROP=${2:-${ID%%-*}}
D=$(mktemp -d /tmp/seedchk_XXXX)
rsync -a --exclude .git /repo/ $D/repo/
(cd $D/repo && patch -p1 -s < /verif/seeded/$ID/patch.diff) || { echo "patch failed"; rm -rf $D; exit 2; }
mkdir -p $D/out; cp /verif/known_findings.json $D/out/
/verif/bin/vcheck --repo $D/repo --verif $D/out --property $PROP > $D/log 2>&1; RC=$?
grep -c "^VIOLATION" $D/log | sed "s/^/$ID $PROP exit=$RC violations=/"
grep "^VIOLATION" $D/log | sed 's/.*obligation=//' | head -5
{ echo "check of property $PROP against seeded defect $ID (scratch copy of /repo + patch.diff): exit=$RC"; grep "^VIOLATION\|^property=" $D/log; } > /verif/seeded/$ID/detect_$PROP.log
rm -rf $D
