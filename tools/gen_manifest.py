#!/usr/bin/env python3
"""Regenerates /verif/MANIFEST.json from the table below (kept in one place so that the claimed
set, the level texts and the not_applicable list never drift apart)."""
import json, subprocess, os

VC = "/verif/bin/vcheck"
ENV = "GOFLAGS=-mod=mod GOPROXY=off GOSUMDB=off GOTOOLCHAIN=local"

CLAIMED = {
 "C04": dict(
  text="Deductive proof (per function, all inputs) that the ledger arithmetic under contract cannot create coins: "
       "calculatePenalty conserves value and never returns negative amounts; see evidence for the exact function list. "
       "Whole-chain totals over histories are reduced to these per-call contracts; the float reward pool is not decided.",
  note="Trusted: math/big contracts (engine stdlib/big.spec), decimal/float operations uninterpreted, object cache of StateDB (A-cache). "
       "Obligations are generated from go/ssa of the working tree and discharged by z3/cvc5.",
  ref="DESIGN.md 4/C04"),
 "C13": dict(
  text="Deductive proof that every mutator and reader of the copy-on-write store database.BackedMemDb refines an abstract view "
       "(touched ? inner : permanent) over trusted tm-db maps: reads return the view, writes change exactly one key of the view, "
       "and the permanent (canonical) database is never written (postcondition and frame obligations).",
  note="Trusted: tm-db DB and golang-set Set behave as mathematical maps/sets (engine stdlib/tmdb.spec); IAVL versioning and the merged "
       "iterator's order are not decided here (see DESIGN.md).",
  ref="DESIGN.md 4/C13"),
}

CLAIMED.update({
 "C17": dict(
  text="Deductive proof over the real decision table ceremony.determineNewIdentityState (all float32 bit patterns, exact SMT FloatingPoint "
       "comparisons, all prior statuses and flags): a missed session or missing flips never yields or keeps a validated status, invitations are "
       "terminated, terminated/undefined identities never return, promotions need the published thresholds; determineIdentityBirthday is exact; "
       "approval needs a strict majority of evidence maps; a cached re-evaluation of a failed validation applies nothing.",
  note="Trusted: stats collector hooks are observers; score computation (float division) and the bitmap library are inputs/uninterpreted; "
       "restart-mid-ceremony histories and answer arrival orders are not decided.",
  ref="DESIGN.md 4/C17"),
 "C19": dict(
  text="Deductive proof of the API-key gate: readRequest rejects (invalid-key error, no callback, no unsubscribe flag, no args) every batch element "
       "whose own key differs from the configured key (loop invariant over the whole batch), parseRequest/parseBatchRequest give every element its "
       "own key, and handle/exec/execBatch never reach a method invocation or unsubscription for a request carrying an error (ghost invocation counter).",
  note="Trusted: ServerCodec implementations only parse/serialise; reflect.Value.Call and Notifier.unsubscribe are the only dispatch points "
       "(ghost counter); encoding/json fills jsonRequest.Key from the \"key\" member; transports and the goroutine glue in serveRequest are not under contract.",
  ref="DESIGN.md 4/C19"),
})

CLAIMED.update({
 "C06": dict(
  text="Deductive proof of the nonce/epoch bookkeeping primitives: the account object's and StateDB's SetNonce/SetEpoch/GetNonce/GetEpoch/Epoch "
       "are exact against the abstract ledger (nonce, aepoch, gepoch) over the cached objects. The one-step application rule in applyTxOnState is "
       "listed in evidence when under contract; histories (reorgs) are not decided.",
  note="Trusted: object cache of StateDB (A-cache: one object per address, distinct addresses distinct objects, dirty bookkeeping only in touch).",
  ref="DESIGN.md 4/C06"),
 "C12": dict(
  text="Deductive no-panic proof (nil dereference, index, slice bounds, type assertion, division, explicit panic) for every per-type transaction "
       "validator, the fee calculation and all attachment parsers, for ALL field values of a decoded transaction (nil recipient, nil amounts, "
       "arbitrary payload bytes) against any well-formed application state; 1281 generated safety obligations, each discharged by SMT. "
       "Found and fixed: validateActivationTx dereferenced a nil recipient (replayed on the real code).",
  note="Trusted: crypto functions total, protobuf Unmarshal writes only its destination message, StateDB object cache (A-cache), validators-cache "
       "queries total, tx serialisation. Not decided here: protocol message handlers, allocation proportionality (s2.Decode), hangs, libp2p, wasm.",
  ref="DESIGN.md 4/C12"),
})

CLAIMED.update({
 "C05": dict(
  text="Deductive proof on the real applyTxOnState (per transaction type, all states admitted by the precondition): no successful non-exception "
       "transaction lowers the balance or stake of any address other than its signer (quantified over all addresses); and the three validators that "
       "gate the named exceptions accept only the inviter of the invitee, the pool of the delegator, the god address.",
  note="Preconditions taken from validation.ValidateTx (non-negative amounts, funds). Exceptions 10/20 and contract types 15-17 are outside the clause "
       "(contract internals: C15). Trusted: object cache (A-cache), signature recovery names the signer (senderOf), VM boundary, stats collector.",
  ref="DESIGN.md 4/C05"),
})

CLAIMED.update({
 "C03": dict(
  text="Deductive proof that every derived-field comparison of validateBlock / ValidateHeader / validateBlockParentHash is in force: for each error "
       "return (identified by its message) the stated mismatch between the header field and the value the code recomputed implies that the error is "
       "returned (evaluated at the guarding test), the test lies on every path to a successful return reachable from it, errors of ValidateHeader, "
       "processTxs, the VRF proof verification and key parsing are never dropped, height and parent link are exact (uint64 arithmetic).",
  note="Callees are opaque (their transitive write set is havocked; their results are the 'recomputed values'): that the recomputed values themselves are "
       "right is C01/C04. Side-effect freedom of rejection (rollback in AddBlock) and the timestamp window are not yet under contract. "
       "Preconditions: a block that passed Block.IsValid.",
  ref="DESIGN.md 4/C03"),
 "C08": dict(
  text="Deductive proof that ValidateSubChain returns success only for a fork whose tip bundle carries a non-empty certificate, and that applyFork hands "
       "only existing certificates to the certificate store (no crash after the rollback) for every fork ValidateSubChain can accept; "
       "AppState.ResetTo rebuilds the validator view only after both states were rolled back successfully to the same height. Two genuine "
       "defects found by failing obligations, replayed on the real code and fixed (empty tip certificate accepted; nil intermediate certificate crashed applyFork).",
  note="Trusted: ResetTo/AddBlock/WriteCertificate do not touch the resolver or the offered bundles. Per-block validation inside the loop, the fork "
       "weight rule (checkForkSize) and 'adoption equals a clean sync' are not decided here.",
  ref="DESIGN.md 4/C08"),
})

CLAIMED.update({
 "C07": dict(
  text="Deductive proof of the acceptance side of certificate validation: in ValidateBlockCert every vote that is added to the counted voter set "
       "has passed, in the same loop iteration, the approved-committee-member, round, voted-hash and parent-hash checks (gate obligations: the stated "
       "rejection condition forces the error return, and the check dominates every call of Set.Add); the final quorum test rejects whenever the "
       "cardinality of the voter SET (distinct addresses) is below threshold minus subtrahend; GetCommitteeVotesThreshold/GetCommitteeSize are exact "
       "against the published table (<=8 validators) and round(size*threshold) / capped round(cnt*percent) otherwise.",
  note="Trusted: golang-set is a mathematical set, signature recovery is a function of the vote, GetOnlineValidators/Approved are not opened "
       "(committee draw determinism, the vote counter countVotes, vote admission AddVote and completeness 'a genuine quorum is always accepted' are not decided).",
  ref="DESIGN.md 4/C07"),
})

CLAIMED.update({
 "C01": dict(
  text="Deductive proof, for the functions under contract, that values every node writes into the state while applying a block are functions of "
       "(state, block) only: NormalizedEpochDuration/GetNextValidationTime are exact against a specification that reads weekday, hour and minute of the "
       "validation INSTANT in UTC, under a model of package time in which the offset of time.Local is an unconstrained host property (found, replayed "
       "and fixed: the weekday was read in the host's zone); MinimalShard is exact against 'lowest shard id among the least populated' under a map "
       "model with arbitrary iteration order. Only these functions: the property as a whole (all transitions, caches, histories) is not decided.",
  note="Trusted: model of package time (engine stdlib/time.spec), NetworkParams (float pow) opaque, StateDB object cache (A-cache). Not under contract: "
       "reward distribution order, ordered commit (sort.Slice), ceremony caches, validators cache rebuild, wasm.",
  ref="DESIGN.md 4/C01"),
})

CLAIMED.update({
 "C15": dict(
  text="Deductive proof for the embedded-contract VM: the write buffer (vm/env.EnvImp) is exact against an abstract 'buffered balance' view "
       "(getBalance/setBalance/addBalance/subBalance), Send cannot overspend, cannot move a negative amount, conserves the two balances and changes "
       "nothing when refused; Reset empties every buffer and VmImpl.Run empties it before every deploy/call/terminate (call-site preconditions); Run "
       "reports success iff the contract code returned no error, never reports more gas than the limit, and leaves every ledger balance, stake and "
       "contract record untouched when the call failed or was a dry run. The last clause rests on a frame proof over the transitive write set of ALL "
       "embedded contract code (class-hierarchy and callback resolution), one obligation per instruction that could write a ledger number in place: "
       "two such instructions exist and are recorded as known findings (oracle-voting Terminate, replayed through the real vm.Run).",
  note="Trusted: StateDB object cache (A-cache), math/big and decimal models, stats collectors observe only, context getters are functions of the "
       "transaction, closed world for interface and function-value calls. Not decided: EnvImp.Commit applies exactly the buffer (map iteration), the WASM VM "
       "(cgo), fee/gas pricing in applyTxOnState (getGasLimit), contract method bodies' own logic.",
  ref="DESIGN.md 4/C15, 9"),
})

CLAIMED.update({
 "C18": dict(
  text="Deductive proof, field by field, for the hand-written encoders of consensus objects: the protobuf message handed to proto.Marshal by "
       "ToSignatureBytes/ToBytes/ToProto carries EVERY field of the Go object under its own name (votes, transactions, proposed and empty block "
       "headers, block proposals incl. header and ordered transaction list, proof proposals, public flip keys, private key packages, block "
       "certificates with their ordered signature lists), and FromBytes/FromProto copy every field back (hashes as 32-byte contents, optional big "
       "integers as their magnitude, nil staying nil): decode(encode(x)) is field-wise x and every signed field is in the signed message. Loops over "
       "lists are proved with inductive invariants (order and length preserved).",
  note="Trusted: the protobuf runtime (Marshal/Unmarshal are inverse on messages), hash collision freedom, Hash/Address byte helpers for inputs of "
       "exactly 32/20 bytes. Not decided yet: state objects (Account, Identity, Global incl. the canonical order of map entries), receipts, "
       "indexes, 'every behaviour-relevant field is encoded' (the field lists are written by hand), negative amounts (the sign is not encoded).",
  ref="DESIGN.md 4/C18, 9"),
})

CLAIMED.update({
 "C20": dict(
  text="Deductive proof of the sequential rules of push/pull: (1) PushPullManager.addPush sends a request only for an item the holder does not "
       "have, asks the first announcer at once, asks a further announcer at once only while the per-item counter is below the holder's cap and "
       "parks announcers at or over the cap (obligations attached to the call sites of makeRequest / AddPendingPush); (2) one arbitrary iteration of "
       "DefaultPushTracker.loop sends a follow-up request only after the holder denied having the item and the pull registry still listed it, and "
       "registers the pull it sent; (3) the queue of parked announcers: Add inserts exactly one entry at the position sort.Search returns "
       "(predecessor not later, successor later, everything else shifted unchanged, an ordered prefix stays ordered), Remove deletes exactly the "
       "indexed entry and keeps the order, Len/Peek are exact; all four never index out of range (no-panic obligations).",
  note="Sequential semantics only: interleavings of announcements, arrivals and timeouts, the pull delay (time.Sleep), races and unbounded growth "
       "are not decided (no concurrency in contracts). Trusted: sync.Map, go-cache, time.Time comparisons compare instants, sort.Search returns a "
       "boundary index of its predicate.",
  ref="DESIGN.md 4/C20, 9"),
})

CLAIMED.update({
 "C10": dict(
  text="Deductive proof of three places where the validator registry is written or rebuilt: (1) epoch results (the callback of "
       "setNewIdentitiesAttributes): an address is registered as validated exactly when its new status is Verified, Newbie or Human, nobody is "
       "switched online there and delegations are copied only for validated identities; (2) applyStatusSwitch: an address goes online only if, in "
       "the same iteration, the stored registry said it is validated or the cache said it is a pool, and only listed online addresses go offline; "
       "(3) ValidatorsCache.UpdateFromIdentityStateDiff approves a pool it creates exactly as the rebuild does (validated and not discriminated "
       "owner, from this diff's entry if there is one); (4) the rebuild (loadValidNodes) starts its scan with every collection empty. "
       "Obligations are attached to the call sites of the registry writers (check-at).",
  note="Only these call sites: equality of the incremental view and the rebuild as a whole (sizes, sorted validators, committees), kills and "
       "delegation switches, and histories are not decided. Trusted: golang-set, A-cache.",
  ref="DESIGN.md 4/C10, 9"),
 "C11": dict(
  text="Deductive proof of the acceptance gates of sync artifacts: ReadTreeFrom2 (snapshot import) refuses unless the imported tree's root equals "
       "the advertised root and the tree validates, clears the target database before every refusal once the importer was opened and never clears "
       "it on success; fastSync.validateIdentityState replays exactly the block's identity diff at the block's height, refuses unless the resulting "
       "root equals the header's identity root and rolls the replayed diff back before refusing; AddDiff/SaveForcedVersion align the tree version "
       "(height-1) before the first node is written; the identity diff stored under a height is the diff of the block inserted there (non-empty "
       "diffs are stored, an empty diff leaves none behind - found, replayed on a real reorganisation and fixed: a dropped block's diff stayed).",
  note="Trusted: iavl importer/tree (WorkingHash, ValidateTree, LoadVersion), archiver, ClearDb deletes everything (ghost counter). Not decided: "
       "that the diffs produced by Precommit reproduce the root (diff production vs replay), export/import round trip, histories with reorgs.",
  ref="DESIGN.md 4/C11, 9"),
})

CLAIMED.update({
 "C16": dict(
  text="Deductive proof of: (1) key reach: PrivateEncryptionKeyCandidates emits one slot per entry of the author's candidate list, in list order, "
       "slot i holding the public key of candidate list[i] (loop invariant), and getPrivateKeyPackageIndex returns the first position of the "
       "recipient's index in that same list and finds it whenever it is listed - so every listed recipient looks up a slot encrypted for its own key; "
       "(2) no duplicates: the closure every per-candidate flip list passes through returns a list without repetitions, never longer than its "
       "input; contains/getAuthorsIndexes are exact (author indexes in range, ascending); (3) determinism mechanism: appendAdditionalCandidates, "
       "fillAuthorsQueue and GetFlipsDistribution each create their generator themselves, seeded with exactly the published function of the "
       "first 8 seed bytes (obligation at the rand.NewSource call site), so no generator is handed in or shared between shards.",
  note="Not decided: in-range/quota/non-empty-long-list properties of GetFlipsDistribution and the author distribution loops (container/list queues), "
       "ECIES encryption/decryption, full determinism as a function (only the seeding mechanism). Trusted: math/rand is a function of its seed.",
  ref="DESIGN.md 4/C16, 9"),
})

CLAIMED.update({
 "C14": dict(
  text="Deductive proof for the block-candidate builder (core/mempool/txblock_builder.go): both phases keep the gas of the candidate list within "
       "the block gas cap (a priority chain is taken only as a whole and only if the whole chain fits - inductive loop invariant; a regular "
       "transaction only if it fits), a regular transaction enters the list only with the nonce that continues its sender's sequence "
       "(obligations at the append site), gas is ten per byte of the fee size and bounded (no overflow of the running sums).",
  note="Only the builder's sequential arithmetic. Not decided: pool placement/promotion/pruning (put, ResetTo), duplicates, retrievability, "
       "and everything concurrent (deadlocks, races: no concurrency in contracts; seed C14-2, a lock-order inversion, is out of reach). "
       "Assumes the encoded size of a transaction is below 1 GiB and stable while the list is built (A-det-fee).",
  ref="DESIGN.md 4/C14, 9"),
})

CLAIMED.update({
 "C02": dict(
  text="Deductive proof of two agreements between the building path (ProposeBlock/filterTxs) and the validating path "
       "(validateBlock/processTxs): (1) the same gas-limit rule - inductive loop invariants: the builder starts a transaction only while the gas "
       "used so far is within the limit, and the validator's flag means exactly 'the limit has been crossed', so its refusal is taken exactly for a "
       "transaction after the crossing one (after Upgrade10; before it both keep the sum within the limit); MaxBlockSize is exact; (2) the same "
       "order of steps - on both paths the reward context is computed on the check state before the block's transactions run on that same state, "
       "and that context is the one block rewards are paid from (obligations at the call sites).",
  note="Only these two agreements; the property as a whole (any mempool content, flags, roots, VM determinism) is relational over two runs and is "
       "not decided. Assumed: preconditions of applyTxOnState at its call sites (established by ValidateTx, not under contract here), A-gas-range "
       "(receipt gas below 2^62), the VM and transaction application do not modify the configuration (trusted frame of VM.Run).",
  ref="DESIGN.md 4/C02, 9"),
})

PENDING = {
}

NA = {
 "C09": "crash points between two storage writes (incl. inside IAVL SaveVersion / leveldb batches outside /repo) cannot be expressed as pre/postconditions of calls; would need a crash-Hoare logic over a storage model (DESIGN.md 4/C09)",
}

# Additions made after the first version of each claim (appended to the claim text).
EXTRA = {
 "C01": " Also: the identities walked for the flip lottery are stored for a restart exactly as handled (every decoded identity, unchanged; the whole list is written); a cloned validators cache owns its pool data (clonePools: fresh delegator lists and approved sets; ValidatorsCache.Clone: every set its own Clone()); the lottery functions never range over a map.",
 "C02": " Also: validateBlockTimestamp accepts every header at least MinBlockDelay after its parent and not ahead of the clock - in particular exactly at the boundary the builder stamps.",
 "C11": " Also: fast sync (applyDeferredBlocks) rewrites the stored identity diff for every block it takes over, also an empty one, under the block's own height.",
 "C14": " Also: TxPool.Remove drops a transaction from the global indexes, from its sender's executable list and from its sender's queued set, each independently of the others.",
 "C03": " Also: validateBlockTimestamp accepts only a header at most 2 minutes ahead of THIS node's clock reading and at least 10 s after its parent (model of package time), and Header.Hash covers the proposed part of a header whenever it has one (an empty-header hash never stands for a header carrying both parts).",
 "C04": " Also: validateTotalCost passes an in-block transaction only if the signer's balance covers amount + tips + fee (the precondition applyTxOnState assumes), and the VM empties all its buffers (EnvImp.Reset: every cache) before each contract run; ValidateTx passes only transactions with non-negative amounts, checked fee rule and covered cost; ledger setters mark their object dirty; applyNewEpoch hands the reward function the distances between consecutive epoch starts (the last one = the finished epoch).",
 "C05": " Also: validateTotalCost passes an in-block transaction only if the signer's balance covers amount + tips + fee, and the VM empties all its buffers before each contract run (what a failed call buffered is never committed by a later transaction of the block).",
 "C06": " Also: ValidateTx never accepts a transaction of a past epoch, whatever its origin (block, mempool, inbound, deferred, restored), nor one whose nonce is consumed; the nonce/epoch setters mark the account dirty so that the commit writes them.",
 "C16": " Also: the pairing rule (nobody is paired with themselves or twice with the same partner while another choice is left in the queue), the first distribution (index in range, relations recorded as inverses), the short-flip chooser (index inside the author's flips), no dependence on map iteration order, and long-session lists never empty.",
 "C20": " Also: every immediate pull registers its time with the tracker (first and further announcers); the tracker's test whether the item is already stored is the one taken after waiting out the pull delay.",
 "C07": " Also the vote counter: countVotes draws the committee for this round, step and step kind, uses quorum = threshold - allowance(configured agreement threshold), reads the votes of this round; its counting callback admits a vote only under its signer's address, for this parent hash and step, from an approved committee member, into the tally of its voted hash, reports success only with the quorum and the voted hash, and takes certificate votes from that tally (that sync.Map.Range composes the callback steps is not under contract).",
 "C08": " Also: checkForkSize never indexes past the fork answer (inductive loop invariant; a non-contiguous answer is refused first - defect F4, found by this obligation, replayed and fixed).",
 "C10": " Also: calculateFlags sets the IdentityUpdate flag for every block containing a KillTx, KillInviteeTx or KillDelegatorTx and whenever epoch results are applied (loop invariant), so the in-memory registry is refreshed whenever the stored one changes that way; ValidatorsCache.Clone shares no mutable collection with its source.",
 "C12": " Also: ForkResolver.checkForkSize cannot index out of range for any fork answer (defect F4 found and fixed); Hash128.SetBytes / BytesToHash128 (push/pull hashes of any peer-chosen length) and KeysPool.GetEncryptedPrivateFlipKey (key packages of any peer-chosen size) cannot panic.",
 "C13": " Also: the six ledger/registry view constructors write nothing that existed before (proved frames), and AppState.ForCheck / ForCheckWithOverwrite assemble a view whose validators cache is built from and loaded out of the view's OWN identity registry (a clone of the node's cache only when it is at the requested height); clonePools shares no pool data with its source; Iterator/ReverseIterator of the copy-on-write store always hand out the merged iterator over the same range and direction (never the permanent iterator bare).",
 "C15": " Also: VmImpl.Run resets the environment buffers and the gas counter (to the given limit) before deploy/call/terminate runs; EnvImp.Commit writes to the ledger only entries of the matching buffer with their buffered values and returns the buffered events.",
 "C17": " Also: the identities walked for the flip lottery are stored for a restart exactly as handled, candidates and non-candidates alike (a restarted node kills/suspends the same non-participants).",
 "C18": " FullBlockCert.Compress keeps per vote exactly that vote's signature, upgrade bits and offline flag. State records (account, identity scalar part) and receipts are covered field by field as well; the Global record (canonical order of its map entries via sort.SliceStable) is not.",
}
for _k, _v in EXTRA.items():
    if _k in CLAIMED:
        CLAIMED[_k]["text"] = CLAIMED[_k]["text"] + _v

def main():
    props = [json.loads(l) for l in open("/verif/properties.jsonl")]
    checks = []
    na = []
    for p in props:
        pid = p["id"]
        if pid in CLAIMED:
            c = CLAIMED[pid]
            checks.append({
                "property_id": pid,
                "quick_cmd": f"{VC} --property {pid} --tier quick",
                "thorough_cmd": f"{VC} --property {pid} --tier thorough",
                "evidence_file": f"/verif/evidence/{pid}.json",
                "replay_cmd_template": f"{VC} --replay {{path}}",
                "engine": "vcheck",
                "level_claimed": {"category": "proof", "text": c["text"], "design_ref": c["ref"]},
                "level_note": c["note"],
                "technique": "contract-based deductive verification: weakest-precondition style VCs over go/ssa of /repo, contracts in *_verif.go, discharged by z3 5.1.0 / cvc5 1.0.3 / z3 4.8.12",
            })
        elif pid in NA:
            na.append({"property_id": pid, "reason": NA[pid]})
        else:
            na.append({"property_id": pid, "reason": PENDING.get(pid, "not claimed yet: contracts for this property are not written/discharged in the committed state (work in progress, see DESIGN.md)")})
    try:
        commits = subprocess.check_output(["git", "-C", "/repo", "log", "--format=%H %s", "036e190d..HEAD"], text=True).strip().splitlines()
    except Exception:
        commits = []
    hook_commits = [c.split()[0] for c in commits if not c.split(" ", 1)[1].startswith("fix:")]
    m = {
        "version": 1,
        "setup_cmd": f"cd /verif/engine && {ENV} go build -o /verif/bin/vcheck ./cmd/vcheck",
        "hooks": {
            "guard": "verif",
            "enable": "contracts live in comment-only files *_verif.go with //go:build verif; the loader reads them (go/packages with -tags=verif); no executable code is behind the tag",
            "baseline_off_cmd": "cd /repo && for p in ./common/... ./rpc/... ./keystore/... ./rlp/... ./crypto/... ./blockchain/fee/... ./blockchain/types/... ./config/... ./secstore/...; do GOFLAGS=-mod=mod go test -vet=off -count=1 -timeout 25m $p; done",
            "source_commits": hook_commits,
            "add_only": True,
        },
        "engines": [{"name": "vcheck", "path": "/verif/engine", "serves_properties": sorted(CLAIMED), "kind_free_text": "self-written VC generator over go/ssa + SMT portfolio (z3 5.1.0, cvc5 1.0.3, z3 4.8.12)"}],
        "checks": checks,
        "not_applicable": na,
        "notes": "All checks rebuild the SSA of /repo's working tree on every run. known findings: /verif/known_findings.json.",
    }
    json.dump(m, open("/verif/MANIFEST.json", "w"), indent=1)
    print("claimed:", sorted(CLAIMED), "na:", len(na))

main()
