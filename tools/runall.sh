#!/bin/bash
# runs every claimed property's quick check on /repo, then (with -s) the selftest corpus
cd /verif
rc=0
for p in $(python3 -c "import json;print(' '.join(c['property_id'] for c in json.load(open('/verif/MANIFEST.json'))['checks']))") "$@"; do
  case $p in -s) continue;; esac
  ./bin/vcheck --property $p 2>&1 | grep -E "^VIOLATION|^KNOWN|^property=" || rc=1
done
exit $rc
