package main

// Per-function encoder: turns the SSA of one function instance into definitions, reach
// variables and obligations. Loops are cut at their invariants; joins are merged with ite.

import (
	"fmt"
	"os"
	"runtime"
	"go/ast"
	"go/token"
	"go/types"
	"sort"
	"strings"

	"golang.org/x/tools/go/ssa"
)

type loopInfo struct {
	header   *ssa.BasicBlock
	ordinal  int
	body     map[*ssa.BasicBlock]bool
	spec     *LoopSpec
	phiFresh map[*ssa.Phi]Val
	entryAlloc Term
	decEntry Term
	hasDec   bool
}

type retInfo struct {
	reach   Term
	results []Val
	st      *State
	taint   string
	pos     token.Pos
}

type FnEnc struct {
	e      *Enc
	fn     *ssa.Function
	spec   *FuncSpec
	pfx    string
	vals   map[ssa.Value]Val
	depth  int
	top    bool
	entry  *State
	args   []Val
	frees  []Val

	inReach  map[int]Term
	outReach map[int]Term
	outState map[int]*State
	outTaint map[int]string
	edgeCond map[[2]int]Term
	loops    map[*ssa.BasicBlock]*loopInfo
	backEdge map[[2]int]bool
	rets     []retInfo
	deferred []deferredCall
	recovers bool

	// current position
	reach Term
	st    *State
	taint string
	blk   *ssa.BasicBlock
	oblCount map[string]int
	arrViews []string
	viewElem map[string]bool
	elemwise map[*ssa.Alloc]bool
	escaped  map[*ssa.Alloc]bool
	noRestore map[*ssa.Alloc]bool
	callSeq   int
	escOut   map[int]map[*ssa.Alloc]bool
	curPos   token.Pos
	parent   *FnEnc // inlining caller (its unescaped locals survive our havocs too)
	lastRes  map[string]lastCall
	callOrd  map[*ssa.CallCommon]int
	applyCallee *ssa.Function   // static callee whose contract is being applied (frame of assigns-less contracts)
	applyCall   *ssa.CallCommon
	checkAtHit map[*CheckAt]int
	locals   []*ssa.Alloc
}

type deferredCall struct {
	call *ssa.CallCommon
	args []Val
	fnv  Val
	instr ssa.Instruction
}

var fnCounter int

func (e *Enc) newFnEnc(fn *ssa.Function, spec *FuncSpec, depth int, top bool) *FnEnc {
	fnCounter++
	return &FnEnc{e: e, fn: fn, spec: spec, pfx: fmt.Sprintf("f%d", fnCounter), vals: map[ssa.Value]Val{}, depth: depth, top: top,
		inReach: map[int]Term{}, outReach: map[int]Term{}, outState: map[int]*State{}, outTaint: map[int]string{}, edgeCond: map[[2]int]Term{},
		loops: map[*ssa.BasicBlock]*loopInfo{}, backEdge: map[[2]int]bool{}, oblCount: map[string]int{}}
}

func (f *FnEnc) name(v ssa.Value) string {
	return fmt.Sprintf("%s.%s", f.pfx, v.Name())
}

func fnDisplayName(fn *ssa.Function) string {
	s := fn.String()
	s = strings.ReplaceAll(s, modPath+"/", "")
	return s
}

// ---------- loop analysis ----------

func (f *FnEnc) analyzeLoops() {
	fn := f.fn
	var headers []*ssa.BasicBlock
	for _, b := range fn.Blocks {
		for _, s := range b.Succs {
			if s.Dominates(b) {
				f.backEdge[[2]int{b.Index, s.Index}] = true
				li := f.loops[s]
				if li == nil {
					li = &loopInfo{header: s, body: map[*ssa.BasicBlock]bool{s: true}}
					f.loops[s] = li
					headers = append(headers, s)
				}
				// natural loop: nodes reaching b without passing through s
				var stack []*ssa.BasicBlock
				if !li.body[b] {
					li.body[b] = true
					stack = append(stack, b)
				}
				for len(stack) > 0 {
					x := stack[len(stack)-1]
					stack = stack[:len(stack)-1]
					for _, p := range x.Preds {
						if !li.body[p] {
							li.body[p] = true
							stack = append(stack, p)
						}
					}
				}
			}
		}
	}
	sort.Slice(headers, func(i, j int) bool { return headers[i].Index < headers[j].Index })
	for i, h := range headers {
		f.loops[h].ordinal = i + 1
		if f.spec != nil {
			f.loops[h].spec = f.spec.Loops[i+1]
		}
	}
}

func (f *FnEnc) rpo() []*ssa.BasicBlock {
	seen := map[*ssa.BasicBlock]bool{}
	var order []*ssa.BasicBlock
	var dfs func(b *ssa.BasicBlock)
	dfs = func(b *ssa.BasicBlock) {
		seen[b] = true
		for _, s := range b.Succs {
			if f.backEdge[[2]int{b.Index, s.Index}] || seen[s] {
				continue
			}
			dfs(s)
		}
		order = append(order, b)
	}
	dfs(f.fn.Blocks[0])
	for i, j := 0, len(order)-1; i < j; i, j = i+1, j-1 {
		order[i], order[j] = order[j], order[i]
	}
	return order
}

// ---------- obligations ----------

func (f *FnEnc) oblName(kind, detail string) string {
	base := fnDisplayName(f.fn)
	if !f.top {
		base = fnDisplayName(f.e.topFn) + "/in:" + fnDisplayName(f.fn)
	}
	n := base + "/" + kind
	if detail != "" {
		n += "/" + detail
	}
	f.e.oblNames()[n]++
	if c := f.e.oblNames()[n]; c > 1 {
		n = fmt.Sprintf("%s#%d", n, c)
	}
	return n
}

var oblNameCount = map[*Enc]map[string]int{}

func (e *Enc) oblNames() map[string]int {
	m := oblNameCount[e]
	if m == nil {
		m = map[string]int{}
		oblNameCount[e] = m
	}
	return m
}

func (f *FnEnc) addObl(kind, detail string, goal Term, pos token.Pos, props []string, src string) *Obligation {
	if goal.S == "true" && f.taint == "" {
		// trivially true goals are still counted (cheap) unless they carry no information
	}
	o := &Obligation{Name: f.oblName(kind, detail), Kind: kind, Fn: fnDisplayName(f.fn), Reach: f.reach, Goal: goal, Pos: pos, Props: props, Tainted: f.taint, Src: src}
	if len(props) == 0 {
		o.Props = f.e.curProps
	}
	f.e.obls = append(f.e.obls, o)
	return o
}

// safety obligation (only when the top-level function asks for no-panic checking)
func (f *FnEnc) safety(kind string, goal Term, pos token.Pos, detail string) {
	if goal.S == "true" {
		return
	}
	if f.e.nopanic && !f.recovers {
		d := detail
		if d == "" {
			d = f.srcAt(pos)
		}
		f.addObl(kind, d, goal, pos, nil, "")
	}
	// afterwards execution continues only if the check passed
	f.assume(goal)
}

func (f *FnEnc) assume(t Term) {
	if t.S == "true" {
		return
	}
	if strings.Contains(t.S, "(forall ") || strings.Contains(t.S, "(exists ") {
		// Quantified assumptions are asserted as top-level implications (positive polarity only):
		// a quantifier buried in the definition of a reach variable would have to be handled in
		// both polarities by the solver, which makes proofs unstable.
		var plain []Term
		for _, c := range splitConj(t.S) {
			if strings.Contains(c, "(forall ") || strings.Contains(c, "(exists ") {
				f.e.asserts = append(f.e.asserts, tImp(f.reach, Term{c, SBool}).S)
			} else {
				plain = append(plain, Term{c, SBool})
			}
		}
		if len(plain) > 0 {
			f.reach = f.e.defineAlways(f.pfx+".reach", tAnd(append([]Term{f.reach}, plain...)...))
		}
		return
	}
	f.reach = f.e.defineAlways(f.pfx+".reach", tAnd(f.reach, t))
}

// splitConj splits a top-level (and ...) s-expression into its conjuncts.
func splitConj(s string) []string {
	s = strings.TrimSpace(s)
	if !strings.HasPrefix(s, "(and ") {
		return []string{s}
	}
	body := s[5 : len(s)-1]
	var out []string
	depth, start := 0, 0
	quoted := false
	for i := 0; i < len(body); i++ {
		switch body[i] {
		case '|':
			quoted = !quoted
		case '(':
			if !quoted {
				depth++
			}
		case ')':
			if !quoted {
				depth--
			}
		case ' ':
			if depth == 0 && !quoted {
				if i > start {
					out = append(out, body[start:i])
				}
				start = i + 1
			}
		}
	}
	if start < len(body) {
		out = append(out, body[start:])
	}
	var res []string
	for _, c := range out {
		res = append(res, splitConj(c)...)
	}
	return res
}

func (f *FnEnc) setTaint(why string) {
	if f.taint == "" {
		f.taint = why
	}
	f.e.abstracted[fnDisplayName(f.fn)+": "+why] = true
}

func (f *FnEnc) srcAt(pos token.Pos) string { return srcTextAt(f.fn, pos) }

func srcTextAt(fn *ssa.Function, pos token.Pos) string {
	if !pos.IsValid() || fn == nil {
		return ""
	}
	// find the smallest expression enclosing pos in the function's syntax
	var best ast.Node
	root := fn.Syntax()
	for p := fn.Parent(); root == nil && p != nil; p = p.Parent() {
		root = p.Syntax()
	}
	if root == nil {
		return ""
	}
	ast.Inspect(root, func(n ast.Node) bool {
		if n == nil {
			return false
		}
		if n.Pos() <= pos && pos < n.End() {
			if _, ok := n.(ast.Expr); ok {
				if n.Pos() == pos || best == nil {
					if best == nil || (n.Pos() == pos && (best.Pos() != pos || n.End()-n.Pos() > best.End()-best.Pos())) {
						best = n
					}
				}
			}
			return true
		}
		return false
	})
	if best == nil {
		return ""
	}
	s := types.ExprString(best.(ast.Expr))
	if len(s) > 60 {
		s = s[:60]
	}
	return strings.ReplaceAll(s, " ", "")
}

// ---------- value access ----------

func (f *FnEnc) val(v ssa.Value) Val {
	if x, ok := f.vals[v]; ok {
		return x
	}
	switch v := v.(type) {
	case *ssa.Const:
		return f.constVal(v)
	case *ssa.Global:
		return f.e.globalRef(v)
	case *ssa.Function:
		return ClosureV{Fn: v}
	case *ssa.Builtin:
		return nil
	case *ssa.FreeVar:
		for i, fv := range f.fn.FreeVars {
			if fv == v {
				if i < len(f.frees) {
					return f.frees[i]
				}
			}
		}
	}
	f.e.unsup("value %s (%T) used before definition", v.Name(), v)
	return nil
}

func (f *FnEnc) term(v ssa.Value) Term {
	x := f.val(v)
	switch t := x.(type) {
	case Term:
		return t
	case ClosureV:
		// function value used as a scalar (comparison with nil, stored, passed)
		if len(t.Bindings) == 0 {
			return f.e.funcRef(t.Fn)
		}
	case FieldPtr:
		f.e.hazard("address of scalar field %s escapes", v.Name())
	}
	f.e.unsup("value %s is not scalar (%T)", v.Name(), x)
	return Term{}
}

func (e *Enc) funcRef(fn *ssa.Function) Term {
	name := "|fn " + fn.String() + "|"
	if !e.declared[name] {
		e.declared[name] = true
		e.decls = append(e.decls, fmt.Sprintf("(declare-fun %s () Int)", name))
		e.asserts = append(e.asserts, fmt.Sprintf("(and (> %s 0) (< %s 1000))", name, name))
	}
	return Term{name, SInt}
}

func (e *Enc) globalRef(g *ssa.Global) Term {
	if t, ok := e.globals[g]; ok {
		return t
	}
	name := "|&" + g.String() + "|"
	e.decls = append(e.decls, fmt.Sprintf("(declare-fun %s () Int)", name))
	t := Term{name, SInt}
	e.asserts = append(e.asserts, fmt.Sprintf("(and (> %s 0) (< %s 1000))", name, name))
	var others []string
	for _, o := range e.globals {
		others = append(others, o.S)
	}
	sort.Strings(others)
	for _, o := range others {
		e.asserts = append(e.asserts, fmt.Sprintf("(not (= %s %s))", name, o))
	}
	e.globals[g] = t
	return t
}

func (f *FnEnc) constVal(c *ssa.Const) Val {
	e := f.e
	t := c.Type()
	if c.Value == nil {
		return e.zeroVal(t)
	}
	switch u := t.Underlying().(type) {
	case *types.Basic:
		switch {
		case u.Info()&types.IsInteger != 0:
			if i, ok := constBig(c); ok {
				return tBig(i)
			}
		case u.Info()&types.IsBoolean != 0:
			return tBool(c.Value.String() == "true")
		case u.Info()&types.IsString != 0:
			return e.strLit(constString(c))
		case u.Info()&types.IsFloat != 0:
			return e.floatConst(c, u)
		}
	}
	e.unsup("constant %s of type %s", c.Value, t)
	return nil
}

// ---------- main loop ----------

type runResult struct {
	reach   Term
	results []Val
	st      *State
	taint   string
}

func (f *FnEnc) run(entryReach Term, args []Val, frees []Val, st *State) (res runResult) {
	e := f.e
	fn := f.fn
	if len(fn.Blocks) == 0 {
		e.unsup("function %s has no body", fn)
	}
	f.args = args
	f.frees = frees
	f.entry = st.clone()
	for i, p := range fn.Params {
		f.vals[p] = args[i]
	}
	for i, fv := range fn.FreeVars {
		if i < len(frees) {
			f.vals[fv] = frees[i]
		}
	}
	f.analyzeLoops()
	for _, b := range fn.Blocks {
		for _, ins := range b.Instrs {
			if d, ok := ins.(*ssa.Defer); ok {
				if cl, ok := d.Call.Value.(*ssa.MakeClosure); ok {
					if callsRecover(cl.Fn.(*ssa.Function)) {
						f.recovers = true
					}
				}
			}
		}
	}
	order := f.rpo()
	for _, b := range order {
		f.blk = b
		f.enterBlock(b, entryReach, st)
		f.execBlock(b)
	}
	if f.top && f.spec != nil {
		for _, g := range f.spec.Gates {
			f.checkGate(g)
		}
	}
	// merge returns
	if len(f.rets) == 0 {
		return runResult{reach: tFalse, st: st}
	}
	var ps []epParent
	var reaches []Term
	taint := ""
	for _, r := range f.rets {
		ps = append(ps, epParent{r.reach, r.st})
		reaches = append(reaches, r.reach)
		if r.taint != "" {
			taint = r.taint
		}
	}
	out := runResult{reach: e.define(f.pfx+".exit", tOr(reaches...)), taint: taint}
	out.st = e.mergeStates(ps)
	nres := len(f.rets[0].results)
	for k := 0; k < nres; k++ {
		acc := f.rets[len(f.rets)-1].results[k]
		for i := len(f.rets) - 2; i >= 0; i-- {
			acc = e.valIte(f.rets[i].reach, f.rets[i].results[k], acc)
		}
		out.results = append(out.results, e.nameVal(fmt.Sprintf("%s.res%d", f.pfx, k), acc))
	}
	return out
}

func callsRecover(fn *ssa.Function) bool {
	for _, b := range fn.Blocks {
		for _, ins := range b.Instrs {
			if c, ok := ins.(*ssa.Call); ok {
				if bi, ok := c.Call.Value.(*ssa.Builtin); ok && bi.Name() == "recover" {
					return true
				}
			}
		}
	}
	return false
}

func (f *FnEnc) enterBlock(b *ssa.BasicBlock, entryReach Term, entrySt *State) {
	e := f.e
	f.taint = ""
	// escape facts are path-sensitive: a local has escaped here if it has on some predecessor
	// (loop bodies: anything escaping inside the loop has escaped at the header)
	f.escaped = map[*ssa.Alloc]bool{}
	for _, p := range b.Preds {
		for a := range f.escOut[p.Index] {
			f.escaped[a] = true
		}
	}
	if li := f.loops[b]; li != nil {
		for lb := range li.body {
			for _, ins := range lb.Instrs {
				f.noteEscapesInto(ins, f.escaped)
			}
		}
	}
	if b.Index == 0 {
		f.reach = entryReach
		f.st = entrySt.clone()
		return
	}
	li := f.loops[b]
	var ps []epParent
	var predIdx []int
	for pi, p := range b.Preds {
		if f.backEdge[[2]int{p.Index, b.Index}] {
			continue
		}
		c, ok := f.edgeCond[[2]int{p.Index, b.Index}]
		if !ok {
			continue // predecessor unreachable / not processed
		}
		ps = append(ps, epParent{c, f.outState[p.Index]})
		predIdx = append(predIdx, pi)
		if t := f.outTaint[p.Index]; t != "" && f.taint == "" {
			f.taint = t
		}
	}
	if len(ps) == 0 {
		f.reach = tFalse
		f.st = entrySt.clone()
		// phis get arbitrary values
		for _, ins := range b.Instrs {
			if phi, ok := ins.(*ssa.Phi); ok {
				f.vals[phi] = e.freshVal(phi.Type(), f.name(phi), f.st.Alloc)
			}
		}
		return
	}
	var rs []Term
	for _, p := range ps {
		rs = append(rs, p.cond)
	}
	f.reach = e.defineAlways(fmt.Sprintf("%s.b%d", f.pfx, b.Index), tOr(rs...))
	f.st = e.mergeStates(ps)
	// phis as merged from the (non-back) predecessors
	merged := map[*ssa.Phi]Val{}
	for _, ins := range b.Instrs {
		phi, ok := ins.(*ssa.Phi)
		if !ok {
			break
		}
		acc := f.val(phi.Edges[predIdx[len(predIdx)-1]])
		for i := len(predIdx) - 2; i >= 0; i-- {
			acc = e.valIte(ps[i].cond, f.val(phi.Edges[predIdx[i]]), acc)
		}
		merged[phi] = e.nameVal(f.name(phi), acc)
	}
	if li == nil {
		for phi, v := range merged {
			f.vals[phi] = v
		}
		return
	}
	// ----- loop header -----
	// 1. invariant must hold on entry
	for phi, v := range merged {
		f.vals[phi] = v
	}
	li.entryAlloc = f.st.Alloc
	if li.spec != nil {
		for i, inv := range li.spec.Invariants {
			ctx := f.specCtx(f.st, b, nil)
			g := f.evalClauseSafe(ctx, inv)
			f.addObl("inv-init", fmt.Sprintf("loop%d/%s", li.ordinal, clauseLabel(inv, i)), g, token.NoPos, inv.Props, inv.Src)
		}
	}
	// implicit frame invariant (top-level function with an assigns clause): at the loop head every
	// object that existed at function entry and is not an assigns target holds its entry value
	implicitFrame := f.top && f.spec != nil && f.spec.HasAssigns && li.spec != nil
	if implicitFrame {
		for _, g := range f.frameGoals(f.topVars(), f.st) {
			f.addObl("frame-init", fmt.Sprintf("loop%d/%s", li.ordinal, g.name), g.goal, token.NoPos, nil, "assigns clause (implicit loop invariant)")
		}
	}
	// 2. havoc what the loop modifies
	ws := f.loopWrites(li)
	// Stores of the loop body into a local object that was allocated BEFORE the loop (a struct or
	// array the function is filling in, on the stack or on the heap): the write-set analysis files
	// them under "objects the writer allocated itself" (or ignores stack objects) because callers
	// cannot see them - but at the loop head they are ordinary writes: their components are havocked
	// and the object is not restored to its pre-loop content. Objects allocated inside the body stay
	// "fresh only" (everything older is preserved).
	f.noRestore = map[*ssa.Alloc]bool{}
	for b := range li.body {
		for _, ins := range b.Instrs {
			if st, ok := ins.(*ssa.Store); ok {
				if a := rootAllocOf(st.Addr); a != nil && !li.body[a.Block()] {
					f.noRestore[a] = true
					if !ws.all {
						e.storeCompNames(st.Addr, ws.names)
					}
				}
			}
		}
	}
	_ = f.st
	f.st = f.havocWrites(ws)
	f.noRestore = nil
	if implicitFrame {
		for _, g := range f.frameGoals(f.topVars(), f.st) {
			f.assume(g.goal)
		}
	}
	for _, ins := range b.Instrs {
		phi, ok := ins.(*ssa.Phi)
		if !ok {
			break
		}
		nv := e.freshVal(phi.Type(), f.name(phi)+"@loop", f.st.Alloc)
		f.vals[phi] = nv
		if phi.Comment == "rangeindex" {
			// hidden index of a range loop: starts at -1, is incremented by one per iteration and an
			// iteration is entered only while index+1 < bound
			f.assume(tLe(tInt(-1), nv.(Term)))
			if bound := rangeBound(b, phi); bound != nil {
				if bt, ok := f.vals[bound].(Term); ok {
					f.assume(tOr(tLt(nv.(Term), bt), tEq(nv.(Term), tInt(-1))))
				} else if c, ok := bound.(*ssa.Const); ok {
					f.assume(tOr(tLt(nv.(Term), f.term(c)), tEq(nv.(Term), tInt(-1))))
				}
			}
		}
	}
	// 3. assume the invariant
	if li.spec != nil {
		for _, inv := range li.spec.Invariants {
			ctx := f.specCtx(f.st, b, nil)
			g := f.evalClauseSafe(ctx, inv)
			f.assume(g)
		}
		if li.spec.Decreases != nil {
			ctx := f.specCtx(f.st, b, nil)
			v, _ := ctx.eval(li.spec.Decreases.E)
			li.decEntry = e.define(f.pfx+".dec", ctx.toInt(v))
			li.hasDec = true
		}
	}
}

func clauseLabel(c *Clause, i int) string {
	if c.Label != "" {
		return c.Label
	}
	return fmt.Sprintf("%d", i+1)
}

func (f *FnEnc) evalClauseSafe(ctx *SpecCtx, c *Clause) (g Term) {
	defer func() {
		if r := recover(); r != nil {
			if u, ok := r.(unsupported); ok {
				f.setTaint(fmt.Sprintf("spec clause %q: %s", c.Src, u.why))
				g = tFalse
				return
			}
			panic(r)
		}
	}()
	return ctx.evalBool(c.E)
}

type writeSet struct {
	all    bool
	extern bool
	names  map[string]bool
	fresh  map[string]bool // written only inside objects the writer allocated itself
	allBut map[string]bool // with all: components that are nevertheless kept ("everything except")
	allPlain bool          // some source writes everything without exception
	watch    map[string]bool // components whose (non-fresh) writers are to be listed
	sites    *[]wsSite
}

// rootAlloc: the local allocation an address points into (through field and index steps), if any.
func rootAlloc(v ssa.Value) *ssa.Alloc {
	for i := 0; i < 16 && v != nil; i++ {
		switch x := v.(type) {
		case *ssa.Alloc:
			return x
		case *ssa.FieldAddr:
			v = x.X
		case *ssa.IndexAddr:
			v = x.X
		default:
			return nil
		}
	}
	return nil
}

func (f *FnEnc) loopWrites(li *loopInfo) writeSet {
	ws := writeSet{names: map[string]bool{}}
	for b := range li.body {
		for _, ins := range b.Instrs {
			f.e.instrWrites(ins, &ws, 0, map[*ssa.Function]bool{f.fn: true})
			if ws.all {
				return ws
			}
		}
	}
	return ws
}

func (f *FnEnc) finishEdge(from *ssa.BasicBlock, to *ssa.BasicBlock, cond Term) {
	e := f.e
	key := [2]int{from.Index, to.Index}
	if f.backEdge[key] {
		li := f.loops[to]
		// invariant must be re-established: evaluate with phi := incoming values
		saved := map[*ssa.Phi]Val{}
		pi := -1
		for i, p := range to.Preds {
			if p == from {
				pi = i
			}
		}
		for _, ins := range to.Instrs {
			phi, ok := ins.(*ssa.Phi)
			if !ok {
				break
			}
			saved[phi] = f.vals[phi]
		}
		incoming := map[*ssa.Phi]Val{}
		for phi := range saved {
			incoming[phi] = f.val(phi.Edges[pi])
		}
		for phi, v := range incoming {
			f.vals[phi] = v
		}
		oldReach := f.reach
		f.reach = e.define(f.pfx+".back", tAnd(f.reach, cond))
		if li.spec != nil {
			for i, inv := range li.spec.Invariants {
				ctx := f.specCtx(f.st, to, nil)
				g := f.evalClauseSafe(ctx, inv)
				f.addObl("inv-step", fmt.Sprintf("loop%d/%s", li.ordinal, clauseLabel(inv, i)), g, token.NoPos, inv.Props, inv.Src)
			}
			if f.top && f.spec != nil && f.spec.HasAssigns {
				for _, g := range f.frameGoals(f.topVars(), f.st) {
					f.addObl("frame-step", fmt.Sprintf("loop%d/%s", li.ordinal, g.name), g.goal, token.NoPos, nil, "assigns clause (implicit loop invariant)")
				}
			}
			if li.hasDec {
				ctx := f.specCtx(f.st, to, nil)
				v, _ := ctx.eval(li.spec.Decreases.E)
				nv := ctx.toInt(v)
				f.addObl("decreases", fmt.Sprintf("loop%d", li.ordinal), tAnd(tLt(nv, li.decEntry), tLe(tInt(0), li.decEntry)), token.NoPos, li.spec.Decreases.Props, li.spec.Decreases.Src)
			}
		}
		f.reach = oldReach
		for phi, v := range saved {
			f.vals[phi] = v
		}
		return
	}
	c := tAnd(f.reach, cond)
	if prev, ok := f.edgeCond[key]; ok {
		c = tOr(prev, c)
	}
	f.edgeCond[key] = e.define(fmt.Sprintf("%s.e%d_%d", f.pfx, from.Index, to.Index), c)
}

func (f *FnEnc) execBlock(b *ssa.BasicBlock) {
	e := f.e
	f.inReach[b.Index] = f.reach
	for _, ins := range b.Instrs {
		if _, ok := ins.(*ssa.Phi); ok {
			continue
		}
		e.budget--
		if e.budget < 0 {
			e.unsup("instruction budget exceeded")
		}
		f.noteEscapes(ins)
		if ins.Pos().IsValid() {
			f.curPos = ins.Pos()
		}
		if f.execInstrSafe(ins) {
			// terminated (panic / unsupported abort)
			break
		}
	}
	f.outReach[b.Index] = f.reach
	f.outState[b.Index] = f.st
	f.outTaint[b.Index] = f.taint
	if f.escOut == nil {
		f.escOut = map[int]map[*ssa.Alloc]bool{}
	}
	f.escOut[b.Index] = f.escaped
}

// execInstrSafe runs one instruction; unsupported constructs havoc their result and taint.
func (f *FnEnc) execInstrSafe(ins ssa.Instruction) (stop bool) {
	defer func() {
		if r := recover(); r != nil {
			u, ok := r.(unsupported)
			if !ok {
				if re, isRT := r.(runtime.Error); isRT && os.Getenv("VCHECK_DEBUG") == "" {
					// a value of unexpected shape inside the encoder: abstract the instruction
					u = unsupported{why: "encoder: " + re.Error()}
				} else {
					panic(r)
				}
			}
			// Unsupported construct: havoc everything and give the result an arbitrary value. This is a
			// sound over-approximation; only constructs that could hide aliasing (hazards) taint.
			msg := fmt.Sprintf("%s: %s [%s]", f.e.posStr(ins.Pos()), u.why, ins.String())
			if u.hazard {
				f.setTaint(msg)
			} else {
				f.e.abstracted[fnDisplayName(f.fn)+": "+msg+" (havocked)"] = true
			}
			f.st = f.havocWrites(writeSet{all: true})
			if v, ok := ins.(ssa.Value); ok {
				func() {
					defer func() {
						if r := recover(); r != nil {
							f.vals[v] = nil
						}
					}()
					f.vals[v] = f.e.freshVal(v.Type(), f.name(v), f.st.Alloc)
				}()
			}
			switch t := ins.(type) {
			case *ssa.If:
				c := f.e.freshConst("nondet", SBool)
				f.finishEdge(f.blk, f.blk.Succs[0], c)
				f.finishEdge(f.blk, f.blk.Succs[1], tNot(c))
			case *ssa.Jump:
				f.finishEdge(f.blk, f.blk.Succs[0], tTrue)
			case *ssa.Return:
				_ = t
			}
			stop = false
		}
	}()
	return f.execInstr(ins)
}

// ---------- specification contexts inside a function ----------

func (f *FnEnc) fnPkg() *types.Package {
	fn := f.fn
	for fn != nil {
		if fn.Pkg != nil {
			return fn.Pkg.Pkg
		}
		fn = fn.Parent()
	}
	return nil
}

func (f *FnEnc) specCtx(st *State, at *ssa.BasicBlock, extra map[string]binding) *SpecCtx {
	vars := f.topVars()
	for k, v := range extra {
		vars[k] = v
	}
	ctx := &SpecCtx{e: f.e, f: f, vars: vars, st: st, old: f.entry, pkg: f.fnPkg()}
	if at != nil {
		ctx.hdrBlock = at
	}
	return ctx
}

// ensureCallOrd numbers the call sites of every callee in source order (block numbering does not
// follow the source).
func (f *FnEnc) ensureCallOrd() {
	if f.callOrd != nil {
		return
	}
	f.callOrd = map[*ssa.CallCommon]int{}
	var sites []*ssa.Call
	for _, b := range f.fn.Blocks {
		for _, ins := range b.Instrs {
			if call, ok := ins.(*ssa.Call); ok && calleeKey(&call.Call) != "" {
				sites = append(sites, call)
			}
		}
	}
	sort.SliceStable(sites, func(i, j int) bool { return sites[i].Pos() < sites[j].Pos() })
	cnt := map[string]int{}
	for _, call := range sites {
		k := calleeKey(&call.Call)
		cnt[k]++
		f.callOrd[&call.Call] = cnt[k]
	}
}

// mapUpdateOrd: the ordinal (from 1, source order) of a map store among the map stores of the function.
func (f *FnEnc) mapUpdateOrd(mu *ssa.MapUpdate) int {
	var all []*ssa.MapUpdate
	for _, b := range f.fn.Blocks {
		for _, ins := range b.Instrs {
			if m, ok := ins.(*ssa.MapUpdate); ok {
				all = append(all, m)
			}
		}
	}
	sort.SliceStable(all, func(i, j int) bool { return all[i].Pos() < all[j].Pos() })
	for i, m := range all {
		if m == mu {
			return i + 1
		}
	}
	return 0
}

// checkAts: obligations attached to program points by the function's contract (check-at).
func (f *FnEnc) checkAts(ins ssa.Instruction, callee string) {
	if !f.top || f.spec == nil || len(f.spec.CheckAts) == 0 {
		return
	}
	for _, ca := range f.spec.CheckAts {
		match := false
		if mu, ok := ins.(*ssa.MapUpdate); ok {
			if ca.MapUpdate == -1 {
				match = true
			} else if ca.MapUpdate > 0 {
				match = f.mapUpdateOrd(mu) == ca.MapUpdate
			}
		} else if ca.MapUpdate != 0 {
			match = false
		} else if ca.Send {
			_, match = ins.(*ssa.Send)
		} else if callee != "" {
			want := ca.Callee
			if i := strings.Index(want, "#"); i >= 0 {
				// k-th call site in source order
				if call, ok := ins.(*ssa.Call); ok {
					f.ensureCallOrd()
					match = want[:i] == callee && fmt.Sprint(f.callOrd[&call.Call]) == want[i+1:]
				}
			} else {
				match = want == callee
			}
		}
		if !match {
			continue
		}
		if f.checkAtHit == nil {
			f.checkAtHit = map[*CheckAt]int{}
		}
		f.checkAtHit[ca]++
		// arg0, arg1, ...: the arguments of the call being checked (for a static method call arg0
		// is the receiver)
		extra := map[string]binding{}
		if call, ok := ins.(*ssa.Call); ok {
			for i, a := range call.Call.Args {
				func() {
					defer func() { recover() }()
					extra[fmt.Sprintf("arg%d", i)] = binding{f.val(a), a.Type()}
				}()
			}
		}
		if mu, ok := ins.(*ssa.MapUpdate); ok {
			extra["map"] = binding{f.val(mu.Map), mu.Map.Type()}
			extra["key"] = binding{f.val(mu.Key), mu.Key.Type()}
			extra["value"] = binding{f.val(mu.Value), mu.Value.Type()}
		}
		ctx := f.specCtx(f.st, f.blk, extra)
		ctx.atReturn = true
		g := f.evalClauseSafe(ctx, ca.Cond)
		o := f.addObl("check-at", ca.Label+"@"+f.srcAt(ins.Pos()), g, ins.Pos(), ca.Props, ca.Cond.Src)
		_ = o
	}
}

func debugRefName(d *ssa.DebugRef) string {
	if id, ok := d.Expr.(*ast.Ident); ok {
		return id.Name
	}
	return ""
}

func (f *FnEnc) hasLocal(name string) bool {
	for _, b := range f.fn.Blocks {
		for _, ins := range b.Instrs {
			switch v := ins.(type) {
			case *ssa.DebugRef:
				if debugRefName(v) == name {
					return true
				}
			case *ssa.Phi:
				if v.Comment == name {
					return true
				}
			}
		}
	}
	return false
}

// resolveLocal finds the value of source variable name on entry to block ctx.hdrBlock
// (after its phis): the nearest dominating definition or reference.
func (f *FnEnc) resolveLocal(name string, ctx *SpecCtx) (Val, types.Type, bool) {
	b, _ := ctx.hdrBlock.(*ssa.BasicBlock)
	if b == nil {
		return nil, nil, false
	}
	for _, ins := range b.Instrs {
		phi, ok := ins.(*ssa.Phi)
		if !ok {
			break
		}
		if phi.Comment == name {
			if v, ok := f.vals[phi]; ok {
				return v, phi.Type(), true
			}
		}
	}
	start := b.Idom()
	if ctx.atReturn {
		start = b // the whole block precedes its return
	}
	for d := start; d != nil; d = d.Idom() {
		for i := len(d.Instrs) - 1; i >= 0; i-- {
			switch v := d.Instrs[i].(type) {
			case *ssa.DebugRef:
				if debugRefName(v) != name {
					continue
				}
				x, ok := f.vals[v.X]
				if !ok {
					if _, isConst := v.X.(*ssa.Const); isConst {
						x = f.val(v.X)
					} else if _, isG := v.X.(*ssa.Global); isG {
						x = f.val(v.X)
					} else {
						continue
					}
				}
				if v.IsAddr {
					t := derefType(v.X.Type())
					switch a := x.(type) {
					case Term:
						return ctx.load(a, t), t, true
					case FieldPtr:
						return f.e.loadField(ctx.st, a.Ref, a.S, a.Field), t, true
					}
					continue
				}
				return x, v.X.Type(), true
			case *ssa.Phi:
				if v.Comment == name {
					if x, ok := f.vals[v]; ok {
						return x, v.Type(), true
					}
				}
			}
		}
	}
	return nil, nil, false
}

// localType returns the type of source variable name if the function has one.
func (f *FnEnc) localType(name string) types.Type {
	for _, b := range f.fn.Blocks {
		for _, ins := range b.Instrs {
			switch v := ins.(type) {
			case *ssa.DebugRef:
				if debugRefName(v) == name {
					if v.IsAddr {
						return derefType(v.X.Type())
					}
					return v.X.Type()
				}
			case *ssa.Phi:
				if v.Comment == name {
					return v.Type()
				}
			}
		}
	}
	return nil
}

// noteArrView records that a non-local array (unit value in the heap model) is also being
// accessed elementwise. Reads are merely imprecise; writes through such a view would not
// update the unit value, so later stores/copies to cells of that element type taint.
func (f *FnEnc) noteArrView(elem types.Type) {
	if f.viewElem == nil {
		f.viewElem = map[string]bool{}
	}
	f.viewElem[typeKey(elem.Underlying())] = true
}

// rangeBound finds Y in the header pattern  t = phi+1; if t < Y.
func rangeBound(b *ssa.BasicBlock, phi *ssa.Phi) ssa.Value {
	ifi, ok := b.Instrs[len(b.Instrs)-1].(*ssa.If)
	if !ok {
		return nil
	}
	cmp, ok := ifi.Cond.(*ssa.BinOp)
	if !ok || cmp.Op != token.LSS {
		return nil
	}
	inc, ok := cmp.X.(*ssa.BinOp)
	if !ok || inc.Op != token.ADD || inc.X != ssa.Value(phi) {
		return nil
	}
	if c, ok := inc.Y.(*ssa.Const); !ok || c.Int64() != 1 {
		return nil
	}
	return cmp.Y
}

// rootAllocOf follows field/element address computations back to a local allocation.
func rootAllocOf(v ssa.Value) *ssa.Alloc {
	for {
		switch x := v.(type) {
		case *ssa.FieldAddr:
			v = x.X
		case *ssa.IndexAddr:
			if _, isPtr := x.X.Type().Underlying().(*types.Pointer); !isPtr {
				return nil
			}
			v = x.X
		case *ssa.Alloc:
			return x
		default:
			return nil
		}
	}
}

// noteEscapes records when the address of a local variable (or of a part of it) leaves the
// function's hands: from then on callees may write it. Until then havocs preserve it.
func (f *FnEnc) noteEscapes(ins ssa.Instruction) {
	if f.escaped == nil {
		f.escaped = map[*ssa.Alloc]bool{}
	}
	if x, ok := ins.(*ssa.Alloc); ok {
		f.locals = append(f.locals, x)
		return
	}
	f.noteEscapesInto(ins, f.escaped)
}

func (f *FnEnc) noteEscapesInto(ins ssa.Instruction, esc map[*ssa.Alloc]bool) {
	mark := func(v ssa.Value) {
		if a := rootAllocOf(v); a != nil {
			esc[a] = true
		}
	}
	switch x := ins.(type) {
	case *ssa.Alloc:
		return
	case *ssa.UnOp, *ssa.FieldAddr, *ssa.IndexAddr, *ssa.DebugRef:
		return // reading through / deriving an address
	case *ssa.Store:
		mark(x.Val) // the address itself is stored somewhere
		return
	case *ssa.MakeClosure:
		// a closure that is only deferred or called right here does not leak what it captures
		local := true
		if refs := x.Referrers(); refs != nil {
			for _, r := range *refs {
				switch u := r.(type) {
				case *ssa.Defer:
					if u.Call.Value != ssa.Value(x) {
						local = false
					}
				case *ssa.Call:
					if u.Call.Value != ssa.Value(x) {
						local = false
					}
				case *ssa.DebugRef:
				default:
					local = false
				}
			}
		}
		if local {
			return
		}
	case *ssa.Call:
		// a callee with a pure contract neither writes through nor retains its arguments
		var spec *FuncSpec
		if x.Call.IsInvoke() {
			spec = f.e.R.forMethod(x.Call.Method)
		} else if callee := x.Call.StaticCallee(); callee != nil {
			if isLockNoop(callee.String()) {
				return
			}
			spec = f.e.R.forFunc(callee)
		}
		if spec != nil && spec.Pure {
			return
		}
	}
	for _, op := range ins.Operands(nil) {
		if *op != nil {
			mark(*op)
		}
	}
}

type lastCall struct {
	blk *ssa.BasicBlock
	res Val
	sig *types.Signature
	str []Term // string content of []byte results at call time
	args []Val // argument values (for a static method call the receiver is argument 0)
	argT []types.Type
	seq  int // position in the order in which call sites were met (program order along a path)
}

func calleeKey(c *ssa.CallCommon) string {
	if b, ok := c.Value.(*ssa.Builtin); ok {
		return "builtin." + b.Name()
	}
	if c.IsInvoke() {
		return strings.ReplaceAll(c.Method.FullName(), modPath+"/", "")
	}
	if callee := c.StaticCallee(); callee != nil {
		return fnDisplayName(callee)
	}
	// a call through a function variable of the source (a closure kept in a local that another
	// closure captured, a function parameter): named after the variable
	v := c.Value
	if u, ok := v.(*ssa.UnOp); ok && u.Op == token.MUL {
		v = u.X
	}
	switch x := v.(type) {
	case *ssa.FreeVar:
		return "var." + x.Name()
	case *ssa.Alloc:
		if x.Comment != "" {
			return "var." + x.Comment
		}
	case *ssa.Parameter:
		return "var." + x.Name()
	}
	return ""
}

// recordCall remembers the most recent result of each callee (for lastresult()/laststr() in
// specifications: "the value the code recomputed").
func (f *FnEnc) recordCall(c *ssa.CallCommon, res Val) {
	key := calleeKey(c)
	if key == "" {
		return
	}
	if f.lastRes == nil {
		f.lastRes = map[string]lastCall{}
	}
	f.callSeq++
	lc := lastCall{blk: f.blk, res: res, sig: c.Signature(), seq: f.callSeq}
	for _, a := range c.Args {
		func() {
			defer func() {
				if r := recover(); r != nil {
					lc.args = append(lc.args, nil)
				}
			}()
			lc.args = append(lc.args, f.val(a))
		}()
		lc.argT = append(lc.argT, a.Type())
	}
	defer func() {
		// also under "key#k": the k-th call site of this callee in the function (source order)
		f.ensureCallOrd()
		if n, ok := f.callOrd[c]; ok {
			f.lastRes[fmt.Sprintf("%s#%d", key, n)] = f.lastRes[key]
		}
	}()
	// content of byte-slice results as of now
	rs := c.Signature().Results()
	vals := []Val{res}
	if tv, ok := res.(TupleV); ok {
		vals = tv
	}
	for i, v := range vals {
		var t Term
		if sv, ok := v.(SliceV); ok && i < rs.Len() {
			if sl, ok := rs.At(i).Type().Underlying().(*types.Slice); ok {
				if b := basicOf(sl.Elem()); b != nil && b.Kind() == types.Uint8 {
					func() {
						defer func() { recover() }()
						es, _ := f.e.scalarSort(sl.Elem())
						cp := f.e.cellComp(sl.Elem(), leaf{"", es, sl.Elem()})
						fn := "|str-of " + typeKey(sl.Elem()) + "|"
						f.e.declFun(fn, []Sort{cp.Sort, SInt, SInt, SInt}, SStr)
						t = f.e.define("laststr", app(SStr, fn, f.e.lookup(f.st, cp), sv.Base, sv.Off, sv.Len))
					}()
				}
			}
		}
		lc.str = append(lc.str, t)
	}
	f.lastRes[key] = lc
}

// errorMessageOf: the constant message of an error value built by errors.New / Errorf / New.
func errorMessageOf(v ssa.Value) (string, *ssa.BasicBlock, bool) {
	for i := 0; i < 4; i++ {
		switch x := v.(type) {
		case *ssa.MakeInterface:
			v = x.X
			continue
		case *ssa.ChangeInterface:
			v = x.X
			continue
		case *ssa.Call:
			callee := x.Call.StaticCallee()
			if callee == nil || len(x.Call.Args) == 0 {
				return "", nil, false
			}
			switch callee.String() {
			case "errors.New", "fmt.Errorf", "github.com/pkg/errors.New", "github.com/pkg/errors.Errorf":
				if k, ok := x.Call.Args[0].(*ssa.Const); ok && k.Value != nil {
					return constString(k), x.Block(), true
				}
			}
			return "", nil, false
		}
		break
	}
	return "", nil, false
}

func isNilConst(v ssa.Value) bool {
	k, ok := v.(*ssa.Const)
	return ok && k.Value == nil
}

// checkGate generates the two obligations of a gate directive.
func (f *FnEnc) checkGate(g *Gate) {
	e := f.e
	name := "gate/" + strings.ReplaceAll(g.Msg, " ", "-")
	fail := func(why string) {
		o := &Obligation{Name: f.oblName(name, "exists"), Kind: "gate", Fn: fnDisplayName(f.fn), Reach: tTrue, Goal: tFalse, Props: g.Props, Tainted: why, Src: g.Cond.Src}
		if len(o.Props) == 0 {
			o.Props = e.curProps
		}
		e.obls = append(e.obls, o)
	}
	// 1. the error return
	var B *ssa.BasicBlock
	// return sites: the Return instructions, or - when the results live in a result cell (functions
	// with defers) - the stores into that cell
	type retSite struct {
		val ssa.Value
		blk *ssa.BasicBlock
		pos token.Pos
	}
	var sites []retSite
	for _, b := range f.fn.Blocks {
		ret, ok := b.Instrs[len(b.Instrs)-1].(*ssa.Return)
		if !ok || len(ret.Results) == 0 {
			continue
		}
		last := ret.Results[len(ret.Results)-1]
		if !isErrorType(last.Type()) {
			continue
		}
		if ld, ok := last.(*ssa.UnOp); ok && ld.Op == token.MUL {
			if cell, ok := ld.X.(*ssa.Alloc); ok && cell.Referrers() != nil {
				for _, r := range *cell.Referrers() {
					if st, ok := r.(*ssa.Store); ok && st.Addr == cell {
						sites = append(sites, retSite{st.Val, st.Block(), st.Pos()})
					}
				}
				continue
			}
		}
		sites = append(sites, retSite{last, ret.Block(), ret.Pos()})
	}
	var success []retSite
	for _, rs := range sites {
		last := rs.val
		if os.Getenv("VCHECK_DEBUG") == "gate" {
			m, _, ok := errorMessageOf(last)
			fmt.Fprintf(os.Stderr, "gate scan: return %s of type %T (%v) -> %q %v\n", last, last, last.Type(), m, ok)
		}
		if isNilConst(last) {
			success = append(success, rs)
			continue
		}
		if msg, blk, ok := errorMessageOf(last); ok && strings.HasPrefix(msg, g.Msg) {
			if B != nil && B != blk {
				fail("more than one error return with message " + g.Msg)
				return
			}
			B = blk
		}
	}
	if B == nil {
		fail("no error return with message \"" + g.Msg + "\" (the check was removed or its message changed)")
		return
	}
	D := B.Idom()
	if D == nil {
		fail("error return is not guarded")
		return
	}
	evalAt := D
	// a conjunctive test (a && b) compiles into a chain of blocks sharing the same "continue"
	// successor: the gate starts at the top of that chain
	for {
		if len(D.Preds) != 1 {
			break
		}
		P := D.Preds[0]
		pif, ok1 := P.Instrs[len(P.Instrs)-1].(*ssa.If)
		_, ok2 := D.Instrs[len(D.Instrs)-1].(*ssa.If)
		if !ok1 || !ok2 || pif == nil || len(P.Succs) != 2 || len(D.Succs) != 2 {
			break
		}
		otherP := P.Succs[0]
		if otherP == D {
			otherP = P.Succs[1]
		}
		shared := false
		for _, sD := range D.Succs {
			if sD == otherP {
				shared = true
			}
		}
		if !shared || !P.Dominates(D) {
			break
		}
		D = P
	}
	inB, okB := f.inReach[B.Index]
	outD, okD := f.outReach[D.Index]
	if !okB || !okD {
		fail("gate blocks were not encoded")
		return
	}
	// 2. every successful return (or, for a "before" gate, every call of the named callee) is
	// dominated by the guarding test
	if g.Before != "" {
		found := 0
		for _, b := range f.fn.Blocks {
			for _, ins := range b.Instrs {
				var cc *ssa.CallCommon
				switch c := ins.(type) {
				case *ssa.Call:
					cc = &c.Call
				case *ssa.Defer:
					cc = &c.Call
				case *ssa.Go:
					cc = &c.Call
				}
				if cc == nil || calleeKey(cc) != g.Before {
					continue
				}
				found++
				why := ""
				if !D.Dominates(b) || b == D {
					why = "is reachable without passing"
				} else {
					// the test must be repeated in every loop the call is repeated in
					for _, L := range f.loops {
						if L.body[b] && !L.body[D] {
							why = "is repeated in a loop that does not repeat"
						}
					}
				}
				if why != "" {
					o := &Obligation{Name: f.oblName(name, "guards-every-call"), Kind: "gate", Fn: fnDisplayName(f.fn), Reach: tTrue, Goal: tFalse, Pos: ins.Pos(), Props: g.Props,
						Verdict: "sat", Model: "the call of " + g.Before + " (" + e.posStr(ins.Pos()) + ") " + why + " the check that guards error \"" + g.Msg + "\"", Src: g.Cond.Src}
					if len(o.Props) == 0 {
						o.Props = e.curProps
					}
					e.obls = append(e.obls, o)
					return
				}
			}
		}
		if found == 0 {
			fail("no call of " + g.Before + " in the function (the guarded action was removed or replaced)")
			return
		}
	}
	for _, ret := range success {
		if g.Before != "" {
			break
		}
		if !D.Dominates(ret.blk) {
			if !cfgReaches(D, ret.blk) {
				continue // a successful return on another path (e.g. the early return for empty blocks)
			}
			o := &Obligation{Name: f.oblName(name, "guards-every-success"), Kind: "gate", Fn: fnDisplayName(f.fn), Reach: tTrue, Goal: tFalse, Pos: ret.pos, Props: g.Props,
				Verdict: "sat", Model: "a successful return (" + e.posStr(ret.pos) + ") is reachable without passing the check that guards error \"" + g.Msg + "\"", Src: g.Cond.Src}
			if len(o.Props) == 0 {
				o.Props = e.curProps
			}
			e.obls = append(e.obls, o)
			return
		}
	}
	// 3. whenever the stated condition holds at the test, the error return is taken
	saveBlk, saveReach, saveSt, saveTaint := f.blk, f.reach, f.st, f.taint
	f.blk, f.reach, f.st, f.taint = evalAt, outD, f.outState[evalAt.Index], f.outTaint[evalAt.Index]
	ctx := f.specCtx(f.st, evalAt, nil)
	ctx.atReturn = true
	ctx.gateTop, ctx.gateB = D, B
	cond := f.evalClauseSafe(ctx, g.Cond)
	// evaluating the rest of the test may itself abort (nil dereference in a later operand):
	// that is not a successful return either
	aborted := tFalse
	for _, R := range f.fn.Blocks {
		if R == D || !D.Dominates(R) || !cfgReaches(R, B) || R == B {
			continue
		}
		in, ok1 := f.inReach[R.Index]
		out, ok2 := f.outReach[R.Index]
		if ok1 && ok2 && in.S != out.S {
			aborted = tOr(aborted, tAnd(in, tNot(out)))
		}
	}
	o := f.addObl(name, "rejects", tImp(cond, tOr(inB, aborted)), B.Instrs[0].Pos(), g.Props, g.Cond.Src)
	o.Kind = "gate"
	f.blk, f.reach, f.st, f.taint = saveBlk, saveReach, saveSt, saveTaint
}

// calleeSig finds the signature of a callee (by display key) called somewhere in this function.
func (f *FnEnc) calleeSig(key string) *types.Signature {
	for _, b := range f.fn.Blocks {
		for _, ins := range b.Instrs {
			if call, ok := ins.(*ssa.Call); ok && calleeKey(&call.Call) == key {
				return call.Call.Signature()
			}
		}
	}
	return nil
}

func cfgReaches(from, to *ssa.BasicBlock) bool {
	seen := map[*ssa.BasicBlock]bool{}
	var dfs func(b *ssa.BasicBlock) bool
	dfs = func(b *ssa.BasicBlock) bool {
		if b == to {
			return true
		}
		if seen[b] {
			return false
		}
		seen[b] = true
		for _, s := range b.Succs {
			if dfs(s) {
				return true
			}
		}
		return false
	}
	return dfs(from)
}
