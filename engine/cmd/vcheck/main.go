package main

import (
	"embed"
	"encoding/json"
	"flag"
	"go/types"
	"fmt"
	"io/fs"
	"os"
	"path/filepath"
	"regexp"
	"runtime"
	"sort"
	"strconv"
	"strings"
	"sync"
	"time"

	"golang.org/x/tools/go/ssa"
)

//go:embed stdlib/*.spec
var stdlibFS embed.FS

type fnResult struct {
	spec    *FuncSpec
	name    string
	obls    []*Obligation
	prelude string
	weak    string
	sl      *slicer
	err     string
	abstracted []string
	trusted []string
	entryReach Term
	interest []interestTerm
	entryVerdict string
}

// clauseHasProp: some clause of the contract is tagged with the property although the function as a
// whole is not (only those clauses are then obligations of that property).
func clauseHasProp(fs *FuncSpec, id string) bool {
	for _, c := range fs.Ensures {
		if len(c.Props) > 0 && hasProp(c.Props, id) {
			return true
		}
	}
	for _, c := range fs.CheckAts {
		if len(c.Props) > 0 && hasProp(c.Props, id) {
			return true
		}
	}
	for _, c := range fs.Preserves {
		if len(c.Props) > 0 && hasProp(c.Props, id) {
			return true
		}
	}
	return false
}

func hasProp(props []string, id string) bool {
	if id == "" {
		return true
	}
	for _, p := range props {
		if p == id {
			return true
		}
	}
	return false
}

func collectSpecs(repo string) (*SpecDB, error) {
	db := newSpecDB()
	ents, _ := fs.ReadDir(stdlibFS, "stdlib")
	for _, en := range ents {
		data, _ := stdlibFS.ReadFile("stdlib/" + en.Name())
		if err := db.parseSpecText(string(data), "stdlib/"+en.Name(), ""); err != nil {
			return nil, err
		}
	}
	var files []string
	filepath.Walk(repo, func(p string, info os.FileInfo, err error) error {
		if err != nil {
			return nil
		}
		if info.IsDir() && (info.Name() == ".git" || info.Name() == "node_modules") {
			return filepath.SkipDir
		}
		if strings.HasSuffix(p, "_verif.go") {
			files = append(files, p)
		}
		return nil
	})
	sort.Strings(files)
	for _, f := range files {
		rel, _ := filepath.Rel(repo, filepath.Dir(f))
		pkgPath := modPath
		if rel != "." {
			pkgPath = modPath + "/" + filepath.ToSlash(rel)
		}
		if err := db.parseSpecFile(f, pkgPath); err != nil {
			return nil, err
		}
	}
	return db, nil
}

func verifyFunction(P *Program, db *SpecDB, R *Resolver, fs *FuncSpec, fn *ssa.Function) (res *fnResult) {
	expandProgram = P
	res = &fnResult{spec: fs, name: fnDisplayName(fn)}
	e := newEnc(P, db, R)
	e.topFn = fn
	e.topSpec = fs
	e.nopanic = fs.NoPanic
	e.curProps = fs.Props
	defer func() {
		if r := recover(); r != nil {
			if u, ok := r.(unsupported); ok {
				res.err = "unsupported: " + u.why
				return
			}
			panic(r)
		}
	}()
	st := e.initState()
	var args []Val
	for _, p := range fn.Params {
		args = append(args, e.freshVal(p.Type(), "arg."+p.Name(), st.Alloc))
	}
	var frees []Val
	for _, fv := range fn.FreeVars {
		frees = append(frees, e.freshVal(fv.Type(), "free."+fv.Name(), st.Alloc))
	}
	for i, p := range fn.Params {
		res.interest = append(res.interest, e.interestTerms(st, p.Name(), args[i], p.Type(), 0)...)
	}
	f := e.newFnEnc(fn, fs, 0, true)
	f.args = args
	f.frees = frees
	f.entry = st
	f.st = st
	// axioms
	for _, ax := range db.Axioms {
		if ax.Lemma {
			continue
		}
		var pkg = f.fnPkg()
		if ax.PkgPath != "" && P.ByPath[ax.PkgPath] != nil {
			pkg = P.ByPath[ax.PkgPath].Types
		}
		ctx := &SpecCtx{e: e, vars: map[string]binding{}, st: st, old: st, pkg: pkg}
		func() {
			defer func() {
				if r := recover(); r != nil {
					if _, ok := r.(unsupported); ok {
						return // axiom over types that are not loaded for this function
					}
					panic(r)
				}
			}()
			nd, na, ns := len(e.decls), len(e.asserts), len(e.sortDecl)
			t := ctx.evalBool(ax.E)
			_ = nd
			_ = na
			_ = ns
			e.fact(t)
			e.axiomsUsed[ax.Name] = true
		}()
	}
	reach := tTrue
	ctx := &SpecCtx{e: e, f: f, vars: f.topVars(), st: st, old: st, pkg: f.fnPkg()}
	for _, c := range fs.Requires {
		reach = tAnd(reach, ctx.evalBool(c.E))
	}
	for _, c := range fs.Needs {
		reach = tAnd(reach, ctx.evalBool(c.E))
	}
	// quantified preconditions become top-level facts (see FnEnc.assume)
	{
		var plain []Term
		for _, c := range splitConj(reach.S) {
			if strings.Contains(c, "(forall ") || strings.Contains(c, "(exists ") {
				e.asserts = append(e.asserts, c)
			} else {
				plain = append(plain, Term{c, SBool})
			}
		}
		reach = tAnd(plain...)
	}
	for _, w := range fs.Witness {
		func() {
			defer func() {
				if r := recover(); r != nil {
					if _, ok := r.(unsupported); !ok {
						panic(r)
					}
				}
			}()
			v, _ := ctx.eval(w.E)
			if t, ok := v.(Term); ok {
				res.interest = append(res.interest, interestTerm{w.Label, t})
			}
		}()
	}
	reach = e.defineAlways("entry", reach)
	res.entryReach = reach
	f.run(reach, args, frees, st)
	preserveObligations(e, fn, fs)
	// no-map-order: a syntactic obligation - no range over a map in the function or its closures
	if nm := fs.NoMapOrder; nm != nil {
		props := nm.Props
		if len(props) == 0 {
			props = fs.Props
		}
		var sites []string
		var scan func(g *ssa.Function)
		scan = func(g *ssa.Function) {
			for _, b := range g.Blocks {
				for _, ins := range b.Instrs {
					if r, ok := ins.(*ssa.Range); ok {
						if _, isMap := r.X.Type().Underlying().(*types.Map); isMap {
							sites = append(sites, e.posStr(r.Pos()))
						}
					}
				}
			}
			for _, a := range g.AnonFuncs {
				scan(a)
			}
		}
		scan(fn)
		o := &Obligation{Name: fnDisplayName(fn) + "/no-map-order/" + nm.Label, Kind: "no-map-order", Fn: fnDisplayName(fn), Reach: tTrue, Props: props, Src: "no-map-order"}
		if len(sites) == 0 {
			o.Goal, o.Verdict, o.Solver = tTrue, "unsat", "syntactic"
		} else {
			o.Goal, o.Verdict = tFalse, "sat"
			o.Model = "range over a map at " + strings.Join(sites, ", ") + ": the iteration order of Go maps differs from run to run and node to node"
		}
		e.obls = append(e.obls, o)
	}
	// a check-at clause whose program point does not exist (any more) is a failed obligation
	for _, ca := range fs.CheckAts {
		if f.checkAtHit[ca] == 0 {
			what := "channel send"
			if ca.MapUpdate != 0 {
				what = "such map store"
			} else if !ca.Send {
				what = "call of " + ca.Callee
			}
			props := ca.Props
			if len(props) == 0 {
				props = fs.Props
			}
			e.obls = append(e.obls, &Obligation{Name: fnDisplayName(fn) + "/check-at/" + ca.Label + "/exists", Kind: "check-at", Fn: fnDisplayName(fn), Reach: tTrue, Goal: tFalse,
				Props: props, Verdict: "sat", Model: "no " + what + " in the function (the guarded action was removed or replaced)", Src: ca.Cond.Src})
		}
	}
	res.obls = e.obls
	res.prelude = e.prelude(true)
	res.weak = e.prelude(false)
	res.sl = e.newSlicer()
	for k := range e.abstracted {
		res.abstracted = append(res.abstracted, k)
	}
	sort.Strings(res.abstracted)
	for k := range e.trustedUsed {
		res.trusted = append(res.trusted, k)
	}
	sort.Strings(res.trusted)
	return res
}

type knownFinding struct {
	Property   string `json:"property"`
	Obligation string `json:"obligation"` // regexp on the obligation name
	What       string `json:"what"`
	Status     string `json:"status"` // known | fixed
	Commit     string `json:"commit,omitempty"`
}

func loadKnown(path string) []knownFinding {
	var k []knownFinding
	data, err := os.ReadFile(path)
	if err != nil {
		return nil
	}
	json.Unmarshal(data, &k)
	return k
}

func main() {
	property := flag.String("property", "", "property id (C01...)")
	tier := flag.String("tier", "quick", "quick|thorough")
	repo := flag.String("repo", "/repo", "repository root")
	verif := flag.String("verif", "/verif", "verification root (evidence, replays, known findings)")
	fnFilter := flag.String("fn", "", "only functions matching this regexp (debugging; no evidence written)")
	keep := flag.String("keep", "", "keep SMT files in this directory")
	verbose := flag.Bool("v", false, "verbose")
	listOnly := flag.Bool("list", false, "list obligations only")
	replay := flag.String("replay", "", "re-run a replay file")
	emitOverlay := flag.String("emit-overlay", "", "write the reduced ipfs/ipfs.go and an overlay json for --repo into this directory, then exit")
	flag.Parse()
	if *emitOverlay != "" {
		if err := writeOverlay(*repo, *emitOverlay); err != nil {
			fmt.Fprintln(os.Stderr, err)
			os.Exit(2)
		}
		return
	}
	if *replay != "" {
		os.Exit(runReplay(*replay, *repo))
	}
	if t := os.Getenv("VERIF_TIER"); t != "" && *tier == "" {
		*tier = t
	}
	seed := 0
	if s := os.Getenv("VERIF_SEED"); s != "" {
		seed, _ = strconv.Atoi(s)
	}
	t0 := time.Now()
	db, err := collectSpecs(*repo)
	if err != nil {
		fmt.Fprintln(os.Stderr, "spec error:", err)
		os.Exit(2)
	}
	// functions for this property
	var targets []*FuncSpec
	pkgSet := map[string]bool{}
	var fre *regexp.Regexp
	if *fnFilter != "" {
		fre = regexp.MustCompile(*fnFilter)
	}
	for _, fs := range db.Funcs {
		if fs.Trusted || fs.PreOnly || fs.PkgPath == "" {
			continue
		}
		if !hasProp(fs.Props, *property) && !clauseHasProp(fs, *property) {
			continue
		}
		if fre != nil && !fre.MatchString(fs.Key) {
			continue
		}
		targets = append(targets, fs)
		pkgSet[fs.PkgPath] = true
	}
	if len(targets) == 0 {
		fmt.Fprintf(os.Stderr, "no functions under contract for property %q\n", *property)
		os.Exit(2)
	}
	var patterns []string
	for p := range pkgSet {
		patterns = append(patterns, p)
	}
	sort.Strings(patterns)
	P, err := loadProgram(*repo, patterns)
	if err != nil {
		fmt.Fprintln(os.Stderr, "load error:", err)
		os.Exit(2)
	}
	tLoad := time.Since(t0).Seconds()
	R := newResolver(P, db)

	dir := *keep
	if dir == "" {
		dir, _ = os.MkdirTemp("", "vcheck")
		defer os.RemoveAll(dir)
	} else {
		os.MkdirAll(dir, 0o755)
	}
	timeout := 40
	if *tier == "thorough" {
		timeout = 120
	}
	opts := solveOpts{timeoutS: timeout, all: *tier == "thorough", dir: dir, keep: *keep != ""}

	var results []*fnResult
	var jobs []job
	idx := 0
	for _, fs := range targets {
		q := qualifyKey(fs.Key, fs.PkgPath)
		fn := R.allFuncs[q]
		if fn == nil {
			r := &fnResult{spec: fs, name: strings.ReplaceAll(q, modPath+"/", "")}
			r.obls = []*Obligation{{Name: r.name + "/target-exists", Kind: "target-exists", Fn: r.name, Verdict: "sat", Props: fs.Props,
				Model: "the function named in the contract file no longer exists: " + q}}
			results = append(results, r)
			continue
		}
		r := verifyFunction(P, db, R, fs, fn)
		results = append(results, r)
		if r.err != "" {
			r.obls = append(r.obls, &Obligation{Name: r.name + "/encodable", Kind: "encodable", Fn: r.name, Verdict: "unsupported", Tainted: r.err, Props: fs.Props})
		}
		if *keep != "" {
			os.WriteFile(filepath.Join(dir, sanitize(r.name)+".prelude.smt2"), []byte(r.prelude), 0o644)
		}
		for _, o := range r.obls {
			if !hasProp(o.Props, *property) {
				continue
			}
			if o.Verdict != "" {
				continue
			}
			idx++
			jobs = append(jobs, job{o, &r.prelude, &r.weak, idx, r.interest, r.sl})
		}
	}
	tEnc := time.Since(t0).Seconds() - tLoad
	if *listOnly {
		for _, j := range jobs {
			fmt.Println(j.o.Name)
		}
		return
	}
	tD0 := time.Now()
	dischargeAll(jobs, opts, runtime.NumCPU())
	tDischarge := time.Since(tD0).Seconds()
	// vacuity: entry reach of each function + reach of each post obligation
	vacChecked, vacOK := 0, 0
	var vacuous []string
	{
		var wg sync.WaitGroup
		eopts := opts
		eopts.timeoutS = 5
		for _, r := range results {
			if r.prelude == "" {
				continue
			}
			idx++
			wg.Add(1)
			go func(r *fnResult, i int) {
				defer wg.Done()
				w := r.weak
				if r.sl != nil {
					w = r.sl.query(false, r.entryReach.S)
				}
				r.entryVerdict = checkReach(r.entryReach, w, eopts, i)
			}(r, idx)
		}
		wg.Wait()
		for _, r := range results {
			if r.prelude == "" {
				continue
			}
			vacChecked++
			if r.entryVerdict == "sat" {
				vacOK++
			} else if r.entryVerdict == "unsat" {
				r.obls = append(r.obls, &Obligation{Name: r.name + "/reach/pre", Kind: "reach", Fn: r.name, Verdict: "sat", Props: r.spec.Props,
					Model: "the preconditions of this function are contradictory: every obligation would be vacuous"})
			}
		}
	}
	{
		// reachability of every return that carries a discharged postcondition (parallel, short timeout)
		type rjob struct {
			r     *fnResult
			reach Term
			obls  []*Obligation
			v     string
		}
		byKey := map[string]*rjob{}
		var rjobs []*rjob
		for _, r := range results {
			for _, o := range r.obls {
				if o.Kind != "post" || !hasProp(o.Props, *property) || o.Verdict != "unsat" {
					continue
				}
				key := r.name + o.Reach.S
				j := byKey[key]
				if j == nil {
					j = &rjob{r: r, reach: o.Reach}
					byKey[key] = j
					rjobs = append(rjobs, j)
				}
				j.obls = append(j.obls, o)
			}
		}
		ropts := opts
		ropts.timeoutS = 3
		var wg sync.WaitGroup
		sem := make(chan struct{}, runtime.NumCPU())
		for i, j := range rjobs {
			wg.Add(1)
			sem <- struct{}{}
			go func(i int, j *rjob) {
				defer wg.Done()
				defer func() { <-sem }()
				w := j.r.weak
				if j.r.sl != nil {
					w = j.r.sl.query(false, j.reach.S)
				}
				j.v = checkReach(j.reach, w, ropts, idx+1+i)
			}(i, j)
		}
		wg.Wait()
		for _, j := range rjobs {
			vacChecked++
			if j.v == "sat" {
				vacOK++
			}
			if j.v == "unsat" {
				for _, o := range j.obls {
					o.Vacuous = true
					vacuous = append(vacuous, o.Name)
				}
			}
		}
	}

	// ----- report -----
	known := loadKnown(filepath.Join(*verif, "known_findings.json"))
	total, discharged, violations := 0, 0, 0
	byBackend := map[string]int{}
	solverTime := 0.0
	var samples []map[string]interface{}
	var fnames []string
	trusted := map[string]bool{}
	abstracted := map[string]bool{}
	var failing []*Obligation
	var knownHit []string
	bounded := 0
	for _, r := range results {
		fnames = append(fnames, r.name)
		for _, t := range r.trusted {
			trusted[strings.ReplaceAll(t, modPath+"/", "")] = true
		}
		for _, a := range r.abstracted {
			abstracted[a] = true
		}
		for _, o := range r.obls {
			if !hasProp(o.Props, *property) {
				continue
			}
			total++
			solverTime += o.Time
			if o.Verdict == "unsat" {
				discharged++
				byBackend[o.Solver]++
				if len(samples) < 12 && (total%7 == 1 || len(samples) < 4) {
					samples = append(samples, map[string]interface{}{"obligation": o.Name, "verdict": "discharged", "solver": o.Solver, "smt_bytes": o.Size, "time_s": round3(o.Time), "clause": o.Src})
				}
				continue
			}
			// failing: known finding?
			isKnown := false
			for _, k := range known {
				if k.Status != "fixed" && k.Property == *property {
					if ok, _ := regexp.MatchString(k.Obligation, o.Name); ok {
						isKnown = true
						knownHit = append(knownHit, fmt.Sprintf("KNOWN-FINDING: property=%s %s [%s]", *property, k.What, o.Name))
					}
				}
			}
			if isKnown {
				total--
				continue
			}
			failing = append(failing, o)
		}
	}
	sort.Strings(fnames)
	for _, k := range knownHit {
		fmt.Println(k)
	}
	for _, v := range vacuous {
		fmt.Printf("note: return path of %s is unreachable under the contract (postcondition holds vacuously there)\n", v)
	}
	replayDir := filepath.Join(*verif, "replays", *property)
	if fre == nil {
		os.RemoveAll(replayDir) // replays always describe the current run
	}
	for _, o := range failing {
		violations++
		path := writeReplay(replayDir, *property, o, P, *repo)
		suffix := ""
		if !o.replayed {
			suffix = " no-failing-input-found"
		}
		fmt.Printf("VIOLATION property=%s replay=%s obligation=%s verdict=%s%s\n", *property, path, o.Name, o.Verdict, suffix)
		if *verbose {
			fmt.Printf("   clause: %s\n   taint: %s\n", o.Src, o.Tainted)
		}
	}
	var tb []string
	for t := range trusted {
		tb = append(tb, "trusted contract: "+t)
	}
	sort.Strings(tb)
	tb = append(tb, "go/ssa builder (x/tools v0.29.0) as the extraction of /repo's source", "vcheck VC generator (this engine)", "SMT solvers z3 5.1.0 / cvc5 1.0.3 / z3 4.8.12",
		"sequential semantics: locks are no-ops, goroutine starts ignored", "ipfs/ipfs.go replaced by its mechanical reduction at load time (ipfs package never under contract)")
	var abs []string
	for a := range abstracted {
		abs = append(abs, a)
	}
	sort.Strings(abs)
	var axs []string
	for _, ax := range db.Axioms {
		if !ax.Lemma {
			axs = append(axs, "axiom "+ax.Name+": "+ax.Src)
		}
	}
	wall := time.Since(t0).Seconds()
	if fre == nil && *property != "" {
		ev := map[string]interface{}{
			"property_id": *property,
			"tier":        *tier,
			"seed":        seed,
			"level":       "proof",
			"wall_s":      round3(wall),
			"violations":  violations,
			"coverage": map[string]interface{}{
				"obligations":              total,
				"discharged":               discharged,
				"checker_cmd":              "z3-new -smt2 -T:" + strconv.Itoa(timeout) + " <obligation>.smt2 ; cvc5 --lang=smt2 --tlimit=" + strconv.Itoa(timeout*1000) + " ; z3 -smt2 -T:" + strconv.Itoa(timeout) + " (first definite answer; thorough: all three must not disagree)",
				"trusted_base":             tb,
				"samples":                  samples,
				"functions_under_contract": fnames,
				"by_backend":               byBackend,
				"solver_time_s":            round3(solverTime),
				"load_s":                   round3(tLoad),
				"encode_s":                 round3(tEnc),
				"abstracted":               abs,
				"axioms":                   axs,
				"vacuity":                  map[string]int{"reach_checks": vacChecked, "reachable": vacOK},
				"bounded":                  bounded,
				"vacuous_post_obligations": vacuous,
				"known_findings_reported":  knownHit,
				"explanation":              "every obligation is generated from the go/ssa form of /repo's current working tree against the contracts in *_verif.go and discharged by an SMT solver (unsat of reach ∧ ¬goal)",
			},
			"assumptions": append(tb, axs...),
		}
		os.MkdirAll(filepath.Join(*verif, "evidence"), 0o755)
		data, _ := json.MarshalIndent(ev, "", " ")
		os.WriteFile(filepath.Join(*verif, "evidence", *property+".json"), data, 0o644)
	}
	if *verbose {
		st := 0.0
		for _, j := range jobs {
			st += j.o.SliceTime
		}
		fmt.Printf("timing: discharge %.1fs wall, slicing %.1fs cpu\n", tDischarge, st)
	}
	fmt.Printf("property=%s tier=%s functions=%d obligations=%d discharged=%d violations=%d known=%d wall=%.1fs (load %.1fs, encode %.1fs, solver %.1fs cpu)\n",
		*property, *tier, len(results), total, discharged, violations, len(knownHit), wall, tLoad, tEnc, solverTime)
	if *verbose {
		for _, r := range results {
			for _, o := range r.obls {
				if hasProp(o.Props, *property) {
					fmt.Printf("  %-9s %-10s %6.2fs %s\n", o.Verdict, o.Solver, o.Time, o.Name)
				}
			}
			for _, a := range r.abstracted {
				fmt.Printf("  abstracted: %s\n", a)
			}
		}
	}
	if violations > 0 {
		os.Exit(1)
	}
}

func round3(x float64) float64 {
	return float64(int(x*1000+0.5)) / 1000
}
