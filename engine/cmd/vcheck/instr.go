package main

import (
	"strings"
	"fmt"
	"go/constant"
	"go/token"
	"go/types"
	"math"
	"math/big"

	"golang.org/x/tools/go/ssa"
)

func constBig(c *ssa.Const) (*big.Int, bool) {
	v := constant.ToInt(c.Value)
	if v.Kind() != constant.Int {
		return nil, false
	}
	if i, ok := constant.Val(v).(*big.Int); ok {
		return i, true
	}
	if i, ok := constant.Val(v).(int64); ok {
		return big.NewInt(i), true
	}
	return nil, false
}

func constString(c *ssa.Const) string {
	if c.Value.Kind() == constant.String {
		return constant.StringVal(c.Value)
	}
	// string(rune) constants etc.
	return c.Value.ExactString()
}

func f32Lit(x float32) Term {
	b := math.Float32bits(x)
	return Term{fmt.Sprintf("(fp #b%01b #b%08b #b%023b)", b>>31, (b>>23)&0xff, b&0x7fffff), SF32}
}

func f64Lit(x float64) Term {
	b := math.Float64bits(x)
	return Term{fmt.Sprintf("(fp #b%01b #b%011b #b%052b)", b>>63, (b>>52)&0x7ff, b&0xfffffffffffff), SF64}
}

func (e *Enc) floatConst(c *ssa.Const, b *types.Basic) Val {
	if b.Kind() == types.Float32 {
		x, _ := constant.Float32Val(constant.ToFloat(c.Value))
		return f32Lit(x)
	}
	x, _ := constant.Float64Val(constant.ToFloat(c.Value))
	return f64Lit(x)
}

func derefType(t types.Type) types.Type {
	if p, ok := t.Underlying().(*types.Pointer); ok {
		return p.Elem()
	}
	return nil
}

func basicOf(t types.Type) *types.Basic {
	b, _ := t.Underlying().(*types.Basic)
	return b
}

func isInteger(t types.Type) bool {
	b := basicOf(t)
	return b != nil && b.Info()&types.IsInteger != 0
}
func isFloat(t types.Type) bool {
	b := basicOf(t)
	return b != nil && b.Info()&types.IsFloat != 0
}
func isString(t types.Type) bool {
	b := basicOf(t)
	return b != nil && b.Info()&types.IsString != 0
}
func isUnsigned(t types.Type) bool {
	b := basicOf(t)
	return b != nil && b.Info()&types.IsUnsigned != 0
}

func (f *FnEnc) set(v ssa.Value, x Val) {
	f.vals[v] = f.e.nameVal(f.name(v), x)
}

// rootsAtAlloc: the address lies inside an object allocated by this function.
func rootsAtAlloc(a ssa.Value) bool {
	for {
		switch x := a.(type) {
		case *ssa.FieldAddr:
			a = x.X
		case *ssa.IndexAddr:
			if _, isPtr := x.X.Type().Underlying().(*types.Pointer); !isPtr {
				if mk, ok := x.X.(*ssa.MakeSlice); ok {
					_ = mk
					return true
				}
				return false
			}
			a = x.X
		case *ssa.Alloc:
			return true
		default:
			return false
		}
	}
}

// isLocalElemwiseArray: a local array variable that is filled element by element (through
// element addresses or slices of it). Its value as a unit is then a function of its cells.
// A local array that is only READ elementwise keeps unit semantics (its stored value).
func (f *FnEnc) isLocalElemwiseArray(v ssa.Value) bool {
	a, ok := v.(*ssa.Alloc)
	if !ok {
		return false
	}
	if _, isArr := derefType(a.Type()).Underlying().(*types.Array); !isArr {
		return false
	}
	if r, ok := f.elemwise[a]; ok {
		return r
	}
	res := false
	if refs := a.Referrers(); refs != nil {
		for _, r := range *refs {
			switch x := r.(type) {
			case *ssa.Slice:
				res = true // a slice of it can be written through by anyone holding it
			case *ssa.IndexAddr:
				if xr := x.Referrers(); xr != nil {
					for _, u := range *xr {
						if ld, ok := u.(*ssa.UnOp); ok && ld.Op == token.MUL {
							continue // element read
						}
						if _, ok := u.(*ssa.DebugRef); ok {
							continue
						}
						res = true
					}
				}
			}
		}
	}
	if f.elemwise == nil {
		f.elemwise = map[*ssa.Alloc]bool{}
	}
	f.elemwise[a] = res
	return res
}

// execInstr encodes one instruction. Returns true when the block ends abnormally.
func (f *FnEnc) execInstr(ins ssa.Instruction) bool {
	e := f.e
	switch v := ins.(type) {
	case *ssa.DebugRef:
		return false
	case *ssa.Alloc:
		r := e.define(f.name(v), f.st.Alloc)
		f.st.Alloc = e.define("alloc", tAdd(f.st.Alloc, tInt(1)))
		t := derefType(v.Type())
		f.vals[v] = r
		if e.isBigInt(t) {
			c := e.bigvalComp()
			e.update(f.st, c, tStore(e.lookup(f.st, c), r, tInt(0)))
			return false
		}
		if _, isArr := t.Underlying().(*types.Array); isArr {
			return false // arrays are used elementwise or assigned as a unit later
		}
		func() {
			defer func() {
				if r := recover(); r != nil {
					if _, ok := r.(unsupported); !ok {
						panic(r)
					}
				}
			}()
			if !isRepoType(t) && e.isStructT(t) {
				return // external structs start unconstrained (only their methods look inside)
			}
			e.storeAt(f.st, r, t, e.zeroVal(t))
		}()
		return false

	case *ssa.FieldAddr:
		x := f.term(v.X)
		f.safety("nil", tNot(tEq(x, tInt(0))), v.Pos(), "")
		S := derefType(v.X.Type())
		ft := structOf(S).Field(v.Field).Type()
		if e.subObj(ft) {
			f.vals[v] = e.subRef(S, v.Field, x)
		} else {
			f.vals[v] = FieldPtr{x, S, v.Field}
		}
		return false

	case *ssa.Field:
		sv, ok := f.val(v.X).(StructV)
		if !ok {
			e.unsup("field of non-struct value")
		}
		f.vals[v] = sv.Fields[v.Field]
		return false

	case *ssa.IndexAddr:
		idx := f.term(v.Index)
		switch xt := v.X.Type().Underlying().(type) {
		case *types.Slice:
			sv := f.val(v.X).(SliceV)
			f.safety("index", tAnd(tLe(tInt(0), idx), tLt(idx, sv.Len)), v.Pos(), "")
			f.vals[v] = e.define(f.name(v), e.elemRef(sv, idx))
		case *types.Pointer:
			arr := xt.Elem().Underlying().(*types.Array)
			var p Term
			if fp, ok := f.val(v.X).(FieldPtr); ok {
				p = e.subRef(fp.S, fp.Field, fp.Ref)
				f.noteArrView(arr.Elem())
			} else {
				p = f.term(v.X)
				f.safety("nil", tNot(tEq(p, tInt(0))), v.Pos(), "")
				if !f.isLocalElemwiseArray(v.X) {
					f.noteArrView(arr.Elem())
				}
			}
			f.safety("index", tAnd(tLe(tInt(0), idx), tLt(idx, tInt(arr.Len()))), v.Pos(), "")
			f.vals[v] = e.define(f.name(v), app(SInt, "elemref", app(SInt, "arrslice", p), idx))
		default:
			e.unsup("IndexAddr on %s", v.X.Type())
		}
		return false

	case *ssa.Index:
		idx := f.term(v.Index)
		switch xt := v.X.Type().Underlying().(type) {
		case *types.Array:
			a := f.term(v.X)
			f.safety("index", tAnd(tLe(tInt(0), idx), tLt(idx, tInt(xt.Len()))), v.Pos(), "")
			es, ok := e.scalarSort(xt.Elem())
			if !ok {
				e.unsup("array of composite elements")
			}
			fn := "|idx " + typeKey(xt) + "|"
			e.declFun(fn, []Sort{a.Sort, SInt}, es)
			r := app(es, fn, a, idx)
			e.fact(e.typingFact(xt.Elem(), r, Term{}))
			f.set(v, r)
		case *types.Basic: // string
			s := f.term(v.X)
			f.safety("index", tAnd(tLe(tInt(0), idx), tLt(idx, app(SInt, "strlen", s))), v.Pos(), "")
			e.declFun("stridx", []Sort{SStr, SInt}, SInt)
			r := app(SInt, "stridx", s, idx)
			e.fact(tAnd(tLe(tInt(0), r), tLe(r, tInt(255))))
			f.set(v, r)
		default:
			e.unsup("Index on %s", v.X.Type())
		}
		return false

	case *ssa.UnOp:
		return f.execUnOp(v)

	case *ssa.BinOp:
		f.set(v, f.binop(v.Op, f.val(v.X), f.val(v.Y), v.X.Type(), v.Y.Type(), v.Type(), v.Pos()))
		return false

	case *ssa.Store:
		val := f.val(v.Val)
		if c, ok := val.(ClosureV); ok {
			// stored closures become opaque non-nil function values: a later call through the
			// stored value is a call through an unknown function value (everything havocked then)
			val = e.closureRef(c)
		}
		if _, ok := val.(FieldPtr); ok {
			e.hazard("address of scalar field stored to memory")
		}
		switch a := f.val(v.Addr).(type) {
		case FieldPtr:
			e.storeField(f.st, a.Ref, a.S, a.Field, val)
		case Term:
			f.safety("nil", tNot(tEq(a, tInt(0))), v.Pos(), "")
			t := derefType(v.Addr.Type())
			if e.isBigInt(t) {
				e.unsup("big.Int struct copy")
			}
			if f.viewElem[typeKey(t.Underlying())] {
				if !rootsAtAlloc(v.Addr) {
					f.setTaint("store to a " + t.String() + " cell while a non-local array of that element type is viewed elementwise")
				}
			}
			e.storeAt(f.st, a, t, val)
		default:
			e.unsup("store through %T", a)
		}
		return false

	case *ssa.Phi:
		return false

	case *ssa.Extract:
		tv, ok := f.val(v.Tuple).(TupleV)
		if !ok {
			e.unsup("extract from non-tuple")
		}
		f.vals[v] = tv[v.Index]
		return false

	case *ssa.ChangeType:
		f.vals[v] = f.val(v.X)
		return false

	case *ssa.ChangeInterface:
		f.vals[v] = f.val(v.X)
		return false

	case *ssa.Convert:
		f.set(v, f.convert(f.val(v.X), v.X.Type(), v.Type()))
		return false

	case *ssa.MakeInterface:
		f.set(v, f.makeIface(f.val(v.X), v.X.Type()))
		return false

	case *ssa.TypeAssert:
		x := f.term(v.X)
		var ok Term
		var res Val
		if _, isIface := v.AssertedType.Underlying().(*types.Interface); isIface {
			ok = e.freshConst(f.name(v)+".ok", SBool)
			e.fact(tImp(ok, tNot(tEq(x, tInt(0)))))
			res = x
		} else {
			ok = e.define(f.name(v)+".ok", tAnd(tNot(tEq(x, tInt(0))), tEq(app(SInt, "dyntype", x), e.typeTag(v.AssertedType))))
			res = f.unbox(x, v.AssertedType)
		}
		if v.CommaOk {
			zero := e.zeroVal(v.AssertedType)
			f.vals[v] = TupleV{e.valIte(ok, res, zero), ok}
		} else {
			f.safety("typeassert", ok, v.Pos(), "")
			f.vals[v] = res
		}
		return false

	case *ssa.MakeClosure:
		c := ClosureV{Fn: v.Fn.(*ssa.Function)}
		for _, b := range v.Bindings {
			c.Bindings = append(c.Bindings, f.val(b))
		}
		f.vals[v] = c
		return false

	case *ssa.MakeMap:
		r := e.define(f.name(v), f.st.Alloc)
		f.st.Alloc = e.define("alloc", tAdd(f.st.Alloc, tInt(1)))
		m := v.Type().Underlying().(*types.Map)
		hc := e.mapHasComp(m)
		ks := e.mapKeySort(m)
		e.update(f.st, hc, tStore(e.lookup(f.st, hc), r, Term{fmt.Sprintf("((as const %s) false)", arrSort(ks, SBool)), arrSort(ks, SBool)}))
		lc := e.mapLenComp(m)
		e.update(f.st, lc, tStore(e.lookup(f.st, lc), r, tInt(0)))
		f.vals[v] = r
		return false

	case *ssa.MakeSlice:
		ln := f.term(v.Len)
		cp := f.term(v.Cap)
		f.safety("makesize", tAnd(tLe(tInt(0), ln), tLe(ln, cp), tLe(cp, Term{maxLen, SInt})), v.Pos(), "")
		r := e.define(f.name(v), f.st.Alloc)
		f.st.Alloc = e.define("alloc", tAdd(f.st.Alloc, tInt(1)))
		f.vals[v] = SliceV{r, tInt(0), ln, cp}
		f.zeroInitSlice(r, v.Type().Underlying().(*types.Slice).Elem())
		return false

	case *ssa.MakeChan:
		r := e.define(f.name(v), f.st.Alloc)
		f.st.Alloc = e.define("alloc", tAdd(f.st.Alloc, tInt(1)))
		f.vals[v] = r
		return false

	case *ssa.Slice:
		f.execSlice(v)
		return false

	case *ssa.Lookup:
		f.execLookup(v)
		return false

	case *ssa.MapUpdate:
		m := f.term(v.Map)
		f.safety("nilmap", tNot(tEq(m, tInt(0))), v.Pos(), "")
		mt := v.Map.Type().Underlying().(*types.Map)
		f.checkAts(ins, "")
		f.mapStore(mt, m, f.term(v.Key), f.val(v.Value))
		return false

	case *ssa.Range:
		if _, ok := v.X.Type().Underlying().(*types.Map); ok {
			f.vals[v] = f.val(v.X)
		} else {
			f.vals[v] = f.val(v.X)
		}
		return false

	case *ssa.Next:
		f.execNext(v)
		return false

	case *ssa.Call:
		f.checkAts(ins, calleeKey(&v.Call))
		res := f.call(&v.Call, v, v.Pos())
		if res != nil {
			f.vals[v] = res
		}
		f.recordCall(&v.Call, res)
		if f.reach.S == "false" {
			return true
		}
		return false

	case *ssa.Go:
		f.e.abstracted[fnDisplayName(f.fn)+": goroutine start ignored (sequential semantics)"] = true
		return false

	case *ssa.Defer:
		f.execDefer(v)
		return false

	case *ssa.RunDefers:
		f.runDefers()
		return false

	case *ssa.Send:
		f.checkAts(ins, "")
		f.e.abstracted[fnDisplayName(f.fn)+": channel send ignored"] = true
		return false

	case *ssa.If:
		c := f.term(v.Cond)
		f.finishEdge(f.blk, f.blk.Succs[0], c)
		f.finishEdge(f.blk, f.blk.Succs[1], tNot(c))
		return false

	case *ssa.Jump:
		f.finishEdge(f.blk, f.blk.Succs[0], tTrue)
		return false

	case *ssa.Return:
		var rs []Val
		for _, r := range v.Results {
			x := f.val(r)
			rs = append(rs, x)
		}
		f.rets = append(f.rets, retInfo{reach: f.reach, results: rs, st: f.st, taint: f.taint, pos: v.Pos()})
		if f.top {
			f.checkPost(rs, v.Pos())
		}
		return false

	case *ssa.Panic:
		if f.e.nopanic && !f.recovers {
			f.addObl("panic", f.srcAt(v.Pos()), tFalse, v.Pos(), nil, "explicit panic must be unreachable")
		}
		f.reach = tFalse
		return true
	}
	e.unsup("instruction %T", ins)
	return false
}

func (f *FnEnc) zeroInitSlice(base Term, elem types.Type) {
	e := f.e
	s, ok := e.scalarSort(elem)
	if !ok {
		return
	}
	z := e.zeroVal(elem).(Term)
	c := e.cellComp(elem, leaf{"", s, elem})
	old := e.lookup(f.st, c)
	nv := e.freshConst(c.Name+"'mk", c.Sort)
	e.fact(Term{fmt.Sprintf("(forall ((r Int)) (! (= (select %s r) (ite (and (= (rtag r) 1) (= (elembase r) %s)) %s (select %s r))) :pattern ((select %s r))))", nv.S, base.S, z.S, old.S, nv.S), SBool})
	f.st.H[c.Name] = nv
}

func (f *FnEnc) execUnOp(v *ssa.UnOp) bool {
	e := f.e
	switch v.Op {
	case token.MUL:
		t := v.Type()
		switch a := f.val(v.X).(type) {
		case FieldPtr:
			f.set(v, e.loadField(f.st, a.Ref, a.S, a.Field))
		case Term:
			f.safety("nil", tNot(tEq(a, tInt(0))), v.Pos(), "")
			if e.isBigInt(t) {
				e.unsup("big.Int struct copy")
			}
			if arr, isArr := t.Underlying().(*types.Array); isArr && f.isLocalElemwiseArray(v.X) {
				// local array filled elementwise: value is a function of its cells
				as, _ := e.scalarSort(t)
				es, ok := e.scalarSort(arr.Elem())
				if !ok {
					e.unsup("array of composite")
				}
				c := e.cellComp(arr.Elem(), leaf{"", es, arr.Elem()})
				fn := "|pack " + typeKey(arr) + "|"
				e.declFun(fn, []Sort{c.Sort, SInt}, as)
				f.set(v, app(as, fn, e.lookup(f.st, c), app(SInt, "arrslice", a)))
				return false
			}
			f.set(v, e.loadAt(f.st, a, t))
			if g, ok := v.X.(*ssa.Global); ok && e.R.nonNilGlobals[g] {
				if lt, ok := f.vals[v].(Term); ok && lt.Sort == SInt {
					e.fact(tNot(tEq(lt, tInt(0)))) // initialised once with a non-nil value
					if k, ok := e.R.bigGlobals[g]; ok {
						// A-bigconst: package-level big.Int constants (common.Big0 ...) are never mutated
						f.assume(tEq(tSelect(e.lookup(f.st, e.bigvalComp()), lt), tBig(k)))
					}
				}
			}
		default:
			e.unsup("load through %T", a)
		}
	case token.SUB:
		x := f.term(v.X)
		if isFloat(v.Type()) {
			f.set(v, app(x.Sort, "fp.neg", x))
		} else {
			f.set(v, wrapTerm(app(SInt, "-", x), basicOf(v.Type())))
		}
	case token.NOT:
		f.set(v, tNot(f.term(v.X)))
	case token.XOR:
		x := f.term(v.X)
		b := basicOf(v.Type())
		if isUnsigned(v.Type()) {
			_, hi, _ := intRange(b)
			f.set(v, tSub(tBig(hi), x))
		} else {
			f.set(v, tSub(tInt(-1), x))
		}
	case token.ARROW:
		f.e.abstracted[fnDisplayName(f.fn)+": channel receive yields an arbitrary value"] = true
		f.vals[v] = e.freshVal(v.Type(), f.name(v), f.st.Alloc)
	default:
		e.unsup("unary %s", v.Op)
	}
	return false
}

func (f *FnEnc) makeIface(x Val, t types.Type) Term {
	e := f.e
	if _, isIface := t.Underlying().(*types.Interface); isIface {
		return x.(Term)
	}
	tag := e.typeTag(t)
	switch xv := x.(type) {
	case Term:
		if xv.Sort == SInt {
			return app(SInt, "mkiface", tag, xv)
		}
		box := "|box " + typeKey(t) + "|"
		unbox := "|unbox " + typeKey(t) + "|"
		e.declFun(box, []Sort{xv.Sort}, SInt)
		e.declFun(unbox, []Sort{SInt}, xv.Sort)
		b := app(SInt, box, xv)
		e.fact(tEq(app(xv.Sort, unbox, b), xv))
		return app(SInt, "mkiface", tag, b)
	case ClosureV:
		if len(xv.Bindings) == 0 {
			return app(SInt, "mkiface", tag, e.funcRef(xv.Fn))
		}
	}
	// composite payload: opaque but deterministic box is not needed; fresh payload
	p := e.freshConst("boxed", SInt)
	return app(SInt, "mkiface", tag, p)
}

func (f *FnEnc) unbox(x Term, t types.Type) Val {
	e := f.e
	s, ok := e.scalarSort(t)
	if ok && s == SInt {
		if isInteger(t) {
			// integers are boxed through box/unbox
			unbox := "|unbox " + typeKey(t) + "|"
			box := "|box " + typeKey(t) + "|"
			e.declFun(box, []Sort{SInt}, SInt)
			e.declFun(unbox, []Sort{SInt}, SInt)
			r := app(SInt, unbox, app(SInt, "ifacepl", x))
			c := e.define("unboxed", r)
			e.fact(e.typingFact(t, c, Term{}))
			return c
		}
		return app(SInt, "ifacepl", x)
	}
	if ok {
		unbox := "|unbox " + typeKey(t) + "|"
		box := "|box " + typeKey(t) + "|"
		e.declFun(box, []Sort{s}, SInt)
		e.declFun(unbox, []Sort{SInt}, s)
		return app(s, unbox, app(SInt, "ifacepl", x))
	}
	return e.freshVal(t, "unboxed", f.st.Alloc)
}

func (f *FnEnc) execSlice(v *ssa.Slice) {
	e := f.e
	var lo, hi, max Term
	has := func(x ssa.Value) bool { return x != nil }
	if has(v.Low) {
		lo = f.term(v.Low)
	} else {
		lo = tInt(0)
	}
	switch xt := v.X.Type().Underlying().(type) {
	case *types.Slice:
		sv := f.val(v.X).(SliceV)
		if has(v.High) {
			hi = f.term(v.High)
		} else {
			hi = sv.Len
		}
		if has(v.Max) {
			max = f.term(v.Max)
		} else {
			max = sv.Cap
		}
		f.safety("slice", tAnd(tLe(tInt(0), lo), tLe(lo, hi), tLe(hi, max), tLe(max, sv.Cap)), v.Pos(), "")
		// slicing a nil slice yields nil
		f.set(v, SliceV{sv.Base, tAdd(sv.Off, lo), tSub(hi, lo), tSub(max, lo)})
	case *types.Basic: // string
		s := f.term(v.X)
		if has(v.High) {
			hi = f.term(v.High)
		} else {
			hi = app(SInt, "strlen", s)
		}
		f.safety("slice", tAnd(tLe(tInt(0), lo), tLe(lo, hi), tLe(hi, app(SInt, "strlen", s))), v.Pos(), "")
		e.declFun("substr", []Sort{SStr, SInt, SInt}, SStr)
		r := app(SStr, "substr", s, lo, hi)
		e.fact(tImp(tAnd(tLe(tInt(0), lo), tLe(lo, hi)), tEq(app(SInt, "strlen", r), tSub(hi, lo))))
		f.set(v, r)
	case *types.Pointer:
		arr := xt.Elem().Underlying().(*types.Array)
		n := tInt(arr.Len())
		if has(v.High) {
			hi = f.term(v.High)
		} else {
			hi = n
		}
		if has(v.Max) {
			max = f.term(v.Max)
		} else {
			max = n
		}
		var p Term
		switch a := f.val(v.X).(type) {
		case FieldPtr:
			p = e.subRef(a.S, a.Field, a.Ref)
			f.noteArrView(arr.Elem())
		case Term:
			p = a
			f.safety("nil", tNot(tEq(p, tInt(0))), v.Pos(), "")
			if !f.isLocalElemwiseArray(v.X) {
				f.noteArrView(arr.Elem())
			}
		}
		f.safety("slice", tAnd(tLe(tInt(0), lo), tLe(lo, hi), tLe(hi, max), tLe(max, n)), v.Pos(), "")
		f.set(v, SliceV{app(SInt, "arrslice", p), lo, tSub(hi, lo), tSub(max, lo)})
		// the full slice a[:] of a byte array reads as the array's content (the array is held as
		// one value; see arrStr)
		if b := basicOf(arr.Elem()); b != nil && b.Kind() == types.Uint8 && !has(v.Low) && !has(v.High) && p.S != "" {
			func() {
				defer func() {
					if r := recover(); r != nil {
						if _, ok := r.(unsupported); !ok {
							panic(r)
						}
					}
				}()
				if av, ok := e.loadAt(f.st, p, xt.Elem()).(Term); ok {
					es, _ := e.scalarSort(arr.Elem())
					cp := e.cellComp(arr.Elem(), leaf{"", es, arr.Elem()})
					fn := "|str-of " + typeKey(arr.Elem()) + "|"
					e.declFun(fn, []Sort{cp.Sort, SInt, SInt, SInt}, SStr)
					sl := app(SStr, fn, e.lookup(f.st, cp), app(SInt, "arrslice", p), lo, n)
					f.assume(tEq(sl, e.arrStr(av)))
					f.assume(tEq(app(SInt, "strlen", sl), n))
				}
			}()
		}
	default:
		e.unsup("slice of %s", v.X.Type())
	}
}

func (f *FnEnc) mapLoad(mt *types.Map, m, k Term, st *State) (Val, Term) {
	e := f.e
	var ts []Term
	for _, l := range e.leaves(mt.Elem()) {
		c := e.mapValComp(mt, l)
		ts = append(ts, tSelect(tSelect(e.lookup(st, c), m), k))
	}
	val, _ := e.unflatten(mt.Elem(), ts)
	has := tSelect(tSelect(e.lookup(st, e.mapHasComp(mt)), m), k)
	return val, has
}

func (f *FnEnc) mapStore(mt *types.Map, m, k Term, v Val) {
	e := f.e
	if c, ok := v.(ClosureV); ok && len(c.Bindings) == 0 {
		v = e.funcRef(c.Fn)
	}
	ts := e.flatten(v)
	for i, l := range e.leaves(mt.Elem()) {
		c := e.mapValComp(mt, l)
		cur := e.lookup(f.st, c)
		e.update(f.st, c, tStore(cur, m, tStore(tSelect(cur, m), k, ts[i])))
	}
	hc := e.mapHasComp(mt)
	cur := e.lookup(f.st, hc)
	had := tSelect(tSelect(cur, m), k)
	lc := e.mapLenComp(mt)
	lcur := e.lookup(f.st, lc)
	e.update(f.st, lc, tStore(lcur, m, tAdd(tSelect(lcur, m), tIte(had, tInt(0), tInt(1)))))
	e.update(f.st, hc, tStore(cur, m, tStore(tSelect(cur, m), k, tTrue)))
}

func (f *FnEnc) mapDelete(mt *types.Map, m, k Term) {
	e := f.e
	hc := e.mapHasComp(mt)
	cur := e.lookup(f.st, hc)
	had := tSelect(tSelect(cur, m), k)
	lc := e.mapLenComp(mt)
	lcur := e.lookup(f.st, lc)
	// delete on a nil map is a no-op
	e.update(f.st, lc, tStore(lcur, m, tSub(tSelect(lcur, m), tIte(had, tInt(1), tInt(0)))))
	e.update(f.st, hc, tStore(cur, m, tStore(tSelect(cur, m), k, tFalse)))
}

func (f *FnEnc) execLookup(v *ssa.Lookup) {
	e := f.e
	switch xt := v.X.Type().Underlying().(type) {
	case *types.Map:
		m := f.term(v.X)
		k := f.term(v.Index)
		val, has := f.mapLoad(xt, m, k, f.st)
		val = e.shapeFactsT(val, xt.Elem()) // values stored in a map are well typed (ground instance)
		has = tAnd(tNot(tEq(m, tInt(0))), has)
		res := e.valIte(has, val, e.zeroVal(xt.Elem()))
		if v.CommaOk {
			f.vals[v] = TupleV{e.nameVal(f.name(v), res), e.define(f.name(v)+".ok", has)}
		} else {
			f.set(v, res)
		}
	case *types.Basic:
		s := f.term(v.X)
		idx := f.term(v.Index)
		f.safety("index", tAnd(tLe(tInt(0), idx), tLt(idx, app(SInt, "strlen", s))), v.Pos(), "")
		e.declFun("stridx", []Sort{SStr, SInt}, SInt)
		r := app(SInt, "stridx", s, idx)
		e.fact(tAnd(tLe(tInt(0), r), tLe(r, tInt(255))))
		f.set(v, r)
	default:
		e.unsup("lookup on %s", v.X.Type())
	}
}

func (f *FnEnc) execNext(v *ssa.Next) {
	e := f.e
	rng := v.Iter.(*ssa.Range)
	tup := v.Type().(*types.Tuple)
	ok := e.freshConst(f.name(v)+".ok", SBool)
	if v.IsString {
		f.vals[v] = TupleV{ok, e.freshVal(tup.At(1).Type(), f.name(v)+".k", f.st.Alloc), e.freshVal(tup.At(2).Type(), f.name(v)+".v", f.st.Alloc)}
		return
	}
	mt := rng.X.Type().Underlying().(*types.Map)
	m := f.term(rng.X)
	var k Val = tInt(0)
	var val Val = tInt(0)
	kt, vt := tup.At(1).Type(), tup.At(2).Type()
	keyUsed := !isInvalid(kt)
	valUsed := !isInvalid(vt)
	kk := e.freshVal(mt.Key(), f.name(v)+".k", f.st.Alloc).(Term)
	mv, has := f.mapLoad(mt, m, kk, f.st)
	// an iteration step yields a key that is present; order is arbitrary
	e.fact(tImp(ok, tAnd(has, tNot(tEq(m, tInt(0))))))
	if keyUsed {
		k = kk
	}
	if valUsed {
		val = e.nameVal(f.name(v)+".v", mv)
	}
	f.vals[v] = TupleV{ok, k, val}
}

func isInvalid(t types.Type) bool {
	b, ok := t.(*types.Basic)
	return ok && b.Kind() == types.Invalid
}

func (f *FnEnc) convert(x Val, from, to types.Type) Val {
	e := f.e
	fu, tu := from.Underlying(), to.Underlying()
	switch {
	case isInteger(from) && isInteger(to):
		return wrapTerm(x.(Term), basicOf(to))
	case isInteger(from) && isFloat(to):
		s, _ := e.scalarSort(to)
		eb, sb := "8", "24"
		if s == SF64 {
			eb, sb = "11", "53"
		}
		return Term{fmt.Sprintf("((_ to_fp %s %s) RNE (to_real %s))", eb, sb, x.(Term).S), s}
	case isFloat(from) && isFloat(to):
		s, _ := e.scalarSort(to)
		fs, _ := e.scalarSort(from)
		if s == fs {
			return x
		}
		eb, sb := "8", "24"
		if s == SF64 {
			eb, sb = "11", "53"
		}
		return Term{fmt.Sprintf("((_ to_fp %s %s) RNE %s)", eb, sb, x.(Term).S), s}
	case isFloat(from) && isInteger(to):
		fs, _ := e.scalarSort(from)
		fn := "|f2i " + typeKey(from) + " " + typeKey(to) + "|"
		e.declFun(fn, []Sort{fs}, SInt)
		r := e.define("f2i", app(SInt, fn, x.(Term)))
		e.fact(e.typingFact(to, r, Term{}))
		// truncation is monotone: a value within [0, K] (K an integer exactly representable) truncates
		// into [0, K]
		xt := x.(Term)
		if !strings.Contains(xt.S, "|q.") {
			eb, sb := "8", "24"
			if fs == SF64 {
				eb, sb = "11", "53"
			}
			lit := func(k string) string { return fmt.Sprintf("((_ to_fp %s %s) RNE %s.0)", eb, sb, k) }
			e.fact(Term{fmt.Sprintf("(=> (fp.leq %s %s) (<= 0 %s))", lit("0"), xt.S, r.S), SBool})
			for _, k := range []string{"2147483648", "4294967296", "1099511627776", "4611686018427387904"} {
				e.fact(Term{fmt.Sprintf("(=> (fp.leq %s %s) (<= %s %s))", xt.S, lit(k), r.S, k), SBool})
			}
		}
		return r
	case isString(to):
		if sl, ok := fu.(*types.Slice); ok {
			sv := x.(SliceV)
			es, _ := e.scalarSort(sl.Elem())
			c := e.cellComp(sl.Elem(), leaf{"", es, sl.Elem()})
			fn := "|str-of " + typeKey(sl.Elem()) + "|"
			e.declFun(fn, []Sort{c.Sort, SInt, SInt, SInt}, SStr)
			r := app(SStr, fn, e.lookup(f.st, c), sv.Base, sv.Off, sv.Len)
			if basicOf(sl.Elem()) != nil && basicOf(sl.Elem()).Kind() == types.Uint8 {
				e.fact(tEq(app(SInt, "strlen", r), sv.Len))
			}
			return r
		}
		if isInteger(from) {
			e.declFun("str-of-rune", []Sort{SInt}, SStr)
			return app(SStr, "str-of-rune", x.(Term))
		}
		if isString(from) {
			return x
		}
	case isString(from):
		if sl, ok := tu.(*types.Slice); ok {
			s := x.(Term)
			r := f.e.define("bytes", f.st.Alloc)
			f.st.Alloc = e.define("alloc", tAdd(f.st.Alloc, tInt(1)))
			ln := e.freshConst("bytes.len", SInt)
			e.fact(tLe(tInt(0), ln))
			if basicOf(sl.Elem()).Kind() == types.Uint8 {
				e.fact(tEq(ln, app(SInt, "strlen", s)))
				// the new bytes read back as the string (cells of the fresh array, current heap)
				es, _ := e.scalarSort(sl.Elem())
				c := e.cellComp(sl.Elem(), leaf{"", es, sl.Elem()})
				fn := "|str-of " + typeKey(sl.Elem()) + "|"
				e.declFun(fn, []Sort{c.Sort, SInt, SInt, SInt}, SStr)
				e.fact(tEq(app(SStr, fn, e.lookup(f.st, c), r, tInt(0), ln), s))
			} else {
				e.fact(tLe(ln, app(SInt, "strlen", s)))
			}
			return SliceV{r, tInt(0), ln, ln}
		}
	}
	if _, ok := tu.(*types.Pointer); ok {
		if b := basicOf(from); b != nil && b.Kind() == types.UnsafePointer {
			return x
		}
	}
	if b := basicOf(to); b != nil && b.Kind() == types.UnsafePointer {
		return x
	}
	e.unsup("conversion %s -> %s", from, to)
	return nil
}

func (f *FnEnc) binop(op token.Token, x, y Val, xt, yt, rt types.Type, pos token.Pos) Val {
	e := f.e
	switch op {
	case token.EQL, token.NEQ:
		var eq Term
		cx, okx := x.(ClosureV)
		cy, oky := y.(ClosureV)
		if okx && len(cx.Bindings) == 0 {
			x = e.funcRef(cx.Fn)
		}
		if oky && len(cy.Bindings) == 0 {
			y = e.funcRef(cy.Fn)
		}
		if sx, ok := x.(SliceV); ok {
			// only comparison with nil is legal
			_ = y
			eq = tEq(sx.Base, tInt(0))
			if sy, ok := y.(SliceV); ok && sy.Base.S != "0" {
				eq = tEq(sy.Base, tInt(0))
			}
		} else if isFloat(xt) {
			eq = app(SBool, "fp.eq", x.(Term), y.(Term))
		} else {
			// interface vs concrete comparisons do not occur in SSA (MakeInterface is explicit)
			eq = e.valEq(x, y)
		}
		if op == token.NEQ {
			return tNot(eq)
		}
		return eq
	}
	a, aok := x.(Term)
	b, bok := y.(Term)
	if !aok || !bok {
		e.unsup("binary %s on composite values", op)
	}
	if isFloat(xt) {
		switch op {
		case token.LSS:
			return app(SBool, "fp.lt", a, b)
		case token.LEQ:
			return app(SBool, "fp.leq", a, b)
		case token.GTR:
			return app(SBool, "fp.gt", a, b)
		case token.GEQ:
			return app(SBool, "fp.geq", a, b)
		case token.ADD:
			return app(a.Sort, "fp.add RNE", a, b)
		case token.SUB:
			return app(a.Sort, "fp.sub RNE", a, b)
		case token.MUL:
			return app(a.Sort, "fp.mul RNE", a, b)
		case token.QUO:
			return app(a.Sort, "fp.div RNE", a, b)
		}
		e.unsup("float op %s", op)
	}
	if isString(xt) {
		switch op {
		case token.ADD:
			e.declFun("strcat", []Sort{SStr, SStr}, SStr)
			r := app(SStr, "strcat", a, b)
			e.fact(tEq(app(SInt, "strlen", r), tAdd(app(SInt, "strlen", a), app(SInt, "strlen", b))))
			return r
		case token.LSS, token.LEQ, token.GTR, token.GEQ:
			e.declFun("strcmp", []Sort{SStr, SStr}, SInt)
			c := app(SInt, "strcmp", a, b)
			switch op {
			case token.LSS:
				return tLt(c, tInt(0))
			case token.LEQ:
				return tLe(c, tInt(0))
			case token.GTR:
				return tLt(tInt(0), c)
			default:
				return tLe(tInt(0), c)
			}
		}
		e.unsup("string op %s", op)
	}
	if a.Sort == SBool {
		switch op {
		case token.AND, token.LAND:
			return tAnd(a, b)
		case token.OR, token.LOR:
			return tOr(a, b)
		}
		e.unsup("bool op %s", op)
	}
	rb := basicOf(rt)
	switch op {
	case token.LSS:
		return tLt(a, b)
	case token.LEQ:
		return tLe(a, b)
	case token.GTR:
		return tLt(b, a)
	case token.GEQ:
		return tLe(b, a)
	case token.ADD:
		return wrapTerm(tAdd(a, b), rb)
	case token.SUB:
		return wrapTerm(tSub(a, b), rb)
	case token.MUL:
		return wrapTerm(e.tMul(a, b), rb)
	case token.QUO:
		f.safety("div0", tNot(tEq(b, tInt(0))), pos, "")
		return wrapTerm(truncDiv(a, b, isUnsigned(rt)), rb)
	case token.REM:
		f.safety("div0", tNot(tEq(b, tInt(0))), pos, "")
		if isUnsigned(rt) {
			return app(SInt, "mod", a, b)
		}
		// Go: a % b has the sign of a
		return tSub(a, app(SInt, "*", b, truncDiv(a, b, false)))
	case token.SHL:
		if c, ok := constOf(b); ok && c < 64 {
			return wrapTerm(app(SInt, "*", a, tBig(pow2(uint(c)))), rb)
		}
	case token.SHR:
		if c, ok := constOf(b); ok && c < 64 {
			return app(SInt, "div", a, tBig(pow2(uint(c)))) // floor division = arithmetic shift
		}
	case token.AND:
		if c, ok := constOf(b); ok && c >= 0 {
			if r, ok := andConst(a, c, isUnsigned(rt) || true); ok {
				return r
			}
		}
		if c, ok := constOf(a); ok && c >= 0 {
			if r, ok := andConst(b, c, true); ok {
				return r
			}
		}
	case token.OR:
		if c, ok := constOf(b); ok && c > 0 && c&(c-1) == 0 && isUnsigned(rt) {
			// x | bit = x + bit when the bit is clear
			bit := tInt(c)
			isSet := tEq(app(SInt, "mod", app(SInt, "div", a, bit), tInt(2)), tInt(1))
			return tIte(isSet, a, tAdd(a, bit))
		}
	case token.AND_NOT:
		if c, ok := constOf(b); ok && c > 0 && c&(c-1) == 0 && isUnsigned(rt) {
			bit := tInt(c)
			isSet := tEq(app(SInt, "mod", app(SInt, "div", a, bit), tInt(2)), tInt(1))
			return tIte(isSet, tSub(a, bit), a)
		}
	}
	// uninterpreted bit operation (sound, incomplete)
	opName := map[token.Token]string{token.AND: "and", token.OR: "or", token.XOR: "xor", token.SHL: "shl", token.SHR: "shr", token.AND_NOT: "andnot"}[op]
	if opName == "" {
		opName = fmt.Sprintf("op%d", int(op))
	}
	fn := fmt.Sprintf("|bitop %s %s|", opName, typeKey(rt.Underlying()))
	e.declFun(fn, []Sort{SInt, SInt}, SInt)
	r := e.define("bitop", app(SInt, fn, a, b))
	e.fact(e.typingFact(rt, r, Term{}))
	if isUnsigned(rt) && (op == token.AND) {
		e.fact(tAnd(tLe(r, a), tLe(r, b)))
	}
	if isUnsigned(rt) && (op == token.SHR || op == token.AND_NOT) {
		e.fact(tLe(r, a))
	}
	if isUnsigned(rt) && op == token.OR {
		e.fact(tAnd(tLe(a, r), tLe(b, r)))
	}
	return r
}

func truncDiv(a, b Term, unsigned bool) Term {
	if unsigned {
		return app(SInt, "div", a, b)
	}
	// truncated division from SMT's floor/euclid division
	q := app(SInt, "div", a, b)
	// SMT div: a = b*q + r with 0 <= r < |b|. Go truncates toward zero.
	adj := tAnd(tLt(a, tInt(0)), tNot(tEq(app(SInt, "mod", a, b), tInt(0))))
	return tIte(adj, tIte(tLt(tInt(0), b), tAdd(q, tInt(1)), tSub(q, tInt(1))), q)
}

func constOf(t Term) (int64, bool) {
	var n int64
	if _, err := fmt.Sscanf(t.S, "%d", &n); err == nil && fmt.Sprintf("%d", n) == t.S {
		return n, true
	}
	return 0, false
}

// andConst encodes x & c for masks of the form 2^k-1 (low bits) or a single bit.
func andConst(x Term, c int64, nonneg bool) (Term, bool) {
	if c == 0 {
		return tInt(0), true
	}
	if (c+1)&c == 0 { // 2^k - 1
		return app(SInt, "mod", x, tInt(c+1)), true
	}
	if c&(c-1) == 0 { // single bit
		bit := tInt(c)
		return app(SInt, "*", bit, app(SInt, "mod", app(SInt, "div", x, bit), tInt(2))), true
	}
	return Term{}, false
}
