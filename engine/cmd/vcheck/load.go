package main

// Loader: builds the SSA form of /repo's current working tree.
//
// The only file that is not taken verbatim is ipfs/ipfs.go: its kubo imports pull in
// quic-go, which does not type-check on the installed Go. We reduce it mechanically
// (reduceIpfs) on every run and pass the result as a packages overlay. The ipfs package is
// never under contract.

import (
	"bytes"
	"fmt"
	"go/ast"
	"go/format"
	"go/parser"
	"go/token"
	"os"
	"path/filepath"
	"sort"
	"strings"

	"golang.org/x/tools/go/packages"
	"golang.org/x/tools/go/ssa"
	"golang.org/x/tools/go/ssa/ssautil"
)

const modPath = "github.com/idena-network/idena-go"

type Program struct {
	Fset  *token.FileSet
	Pkgs  []*packages.Package
	ByPath map[string]*packages.Package
	SSA   *ssa.Program
	SPkgs map[string]*ssa.Package
	Repo  string
	Overlay map[string][]byte
}

// reduceIpfs deletes every top-level declaration of ipfs/ipfs.go that (transitively)
// mentions an import whose path starts with github.com/ipfs/kubo; exported functions whose
// signature is clean are kept with a panicking body; unused imports are dropped.
func reduceIpfs(src []byte) ([]byte, error) {
	fset := token.NewFileSet()
	f, err := parser.ParseFile(fset, "ipfs.go", src, parser.ParseComments)
	if err != nil {
		return nil, err
	}
	badImp := map[string]bool{}
	impName := func(is *ast.ImportSpec) string {
		if is.Name != nil {
			return is.Name.Name
		}
		p := strings.Trim(is.Path.Value, `"`)
		n := p[strings.LastIndex(p, "/")+1:]
		// go-xxx style packages: the repo always aliases or the name follows the last dash-free part
		switch p {
		case "github.com/ipfs/go-blockservice":
			return "blockservice"
		case "github.com/ipfs/go-cid":
			return "cid"
		case "github.com/ipfs/go-ipfs-files":
			return "files"
		case "github.com/ipfs/go-mfs":
			return "mfs"
		case "github.com/multiformats/go-multihash":
			return "multihash"
		case "github.com/patrickmn/go-cache":
			return "cache"
		case "github.com/whyrusleeping/go-logging":
			return "logging"
		}
		return n
	}
	for _, is := range f.Imports {
		p := strings.Trim(is.Path.Value, `"`)
		if strings.HasPrefix(p, "github.com/ipfs/kubo") {
			badImp[impName(is)] = true
		}
	}
	declName := func(d ast.Decl) []string {
		switch d := d.(type) {
		case *ast.FuncDecl:
			if d.Recv != nil {
				return nil
			}
			return []string{d.Name.Name}
		case *ast.GenDecl:
			var r []string
			for _, s := range d.Specs {
				switch s := s.(type) {
				case *ast.TypeSpec:
					r = append(r, s.Name.Name)
				case *ast.ValueSpec:
					for _, n := range s.Names {
						r = append(r, n.Name)
					}
				}
			}
			return r
		}
		return nil
	}
	recvType := func(d *ast.FuncDecl) string {
		if d.Recv == nil || len(d.Recv.List) == 0 {
			return ""
		}
		t := d.Recv.List[0].Type
		if s, ok := t.(*ast.StarExpr); ok {
			t = s.X
		}
		if id, ok := t.(*ast.Ident); ok {
			return id.Name
		}
		return ""
	}
	badName := map[string]bool{}
	mentions := func(n ast.Node) bool {
		found := false
		ast.Inspect(n, func(x ast.Node) bool {
			if found || x == nil {
				return false
			}
			switch x := x.(type) {
			case *ast.SelectorExpr:
				if id, ok := x.X.(*ast.Ident); ok && badImp[id.Name] {
					found = true
					return false
				}
			case *ast.Ident:
				if badName[x.Name] {
					found = true
					return false
				}
			}
			return true
		})
		return found
	}
	bad := map[ast.Decl]bool{}
	for changed := true; changed; {
		changed = false
		for _, d := range f.Decls {
			if bad[d] {
				continue
			}
			if gd, ok := d.(*ast.GenDecl); ok && gd.Tok == token.IMPORT {
				continue
			}
			isBad := false
			if fd, ok := d.(*ast.FuncDecl); ok {
				if rt := recvType(fd); rt != "" && badName[rt] {
					isBad = true
				}
				if fd.Name.Name == "init" && fd.Recv == nil {
					// keep init unless it mentions bad things
				}
			}
			if !isBad && mentions(d) {
				isBad = true
			}
			if isBad {
				bad[d] = true
				changed = true
				for _, n := range declName(d) {
					if !badName[n] {
						badName[n] = true
					}
				}
			}
		}
	}
	var kept []ast.Decl
	for _, d := range f.Decls {
		if !bad[d] {
			kept = append(kept, d)
			continue
		}
		if fd, ok := d.(*ast.FuncDecl); ok && fd.Recv == nil && ast.IsExported(fd.Name.Name) {
			// keep signature with panicking body when the signature itself is clean
			delete(badName, fd.Name.Name)
			if !mentions(fd.Type) {
				fd.Body = &ast.BlockStmt{List: []ast.Stmt{&ast.ExprStmt{X: &ast.CallExpr{
					Fun:  ast.NewIdent("panic"),
					Args: []ast.Expr{&ast.BasicLit{Kind: token.STRING, Value: `"ipfs proxy not available under verification overlay"`}},
				}}}}
				fd.Doc = nil
				kept = append(kept, fd)
				continue
			}
			badName[fd.Name.Name] = true
		}
	}
	f.Decls = kept
	// drop unused imports
	used := map[string]bool{}
	for _, d := range f.Decls {
		if gd, ok := d.(*ast.GenDecl); ok && gd.Tok == token.IMPORT {
			continue
		}
		ast.Inspect(d, func(x ast.Node) bool {
			if se, ok := x.(*ast.SelectorExpr); ok {
				if id, ok := se.X.(*ast.Ident); ok {
					used[id.Name] = true
				}
			}
			return true
		})
	}
	for _, d := range f.Decls {
		gd, ok := d.(*ast.GenDecl)
		if !ok || gd.Tok != token.IMPORT {
			continue
		}
		var specs []ast.Spec
		for _, s := range gd.Specs {
			is := s.(*ast.ImportSpec)
			if used[impName(is)] {
				specs = append(specs, s)
			}
		}
		gd.Specs = specs
	}
	f.Comments = nil
	var buf bytes.Buffer
	if err := format.Node(&buf, fset, f); err != nil {
		return nil, err
	}
	return buf.Bytes(), nil
}

func loadProgram(repo string, pkgPatterns []string) (*Program, error) {
	ipfsPath := filepath.Join(repo, "ipfs", "ipfs.go")
	overlay := map[string][]byte{}
	if src, err := os.ReadFile(ipfsPath); err == nil {
		red, err := reduceIpfs(src)
		if err != nil {
			return nil, fmt.Errorf("reduce ipfs: %v", err)
		}
		overlay[ipfsPath] = red
	}
	fset := token.NewFileSet()
	cfg := &packages.Config{
		Mode: packages.NeedName | packages.NeedFiles | packages.NeedCompiledGoFiles | packages.NeedImports |
			packages.NeedDeps | packages.NeedTypes | packages.NeedSyntax | packages.NeedTypesInfo | packages.NeedTypesSizes | packages.NeedModule,
		Dir:        repo,
		Fset:       fset,
		Overlay:    overlay,
		BuildFlags: []string{"-tags=verif"},
		Env: append(os.Environ(), "GOFLAGS=-mod=mod", "GOPROXY=off", "GOSUMDB=off", "GOTOOLCHAIN=local"),
	}
	pkgs, err := packages.Load(cfg, pkgPatterns...)
	if err != nil {
		return nil, err
	}
	var errs []string
	packages.Visit(pkgs, nil, func(p *packages.Package) {
		if strings.HasPrefix(p.PkgPath, modPath) {
			for _, e := range p.Errors {
				errs = append(errs, p.PkgPath+": "+e.Error())
			}
		}
	})
	if len(errs) > 0 {
		sort.Strings(errs)
		if len(errs) > 20 {
			errs = errs[:20]
		}
		return nil, fmt.Errorf("load errors:\n%s", strings.Join(errs, "\n"))
	}
	prog, _ := ssautil.AllPackages(pkgs, ssa.GlobalDebug|ssa.InstantiateGenerics)
	prog.Build()
	P := &Program{Fset: fset, Pkgs: pkgs, SSA: prog, ByPath: map[string]*packages.Package{}, SPkgs: map[string]*ssa.Package{}, Repo: repo, Overlay: overlay}
	packages.Visit(pkgs, nil, func(p *packages.Package) {
		P.ByPath[p.PkgPath] = p
		if sp := prog.Package(p.Types); sp != nil {
			P.SPkgs[p.PkgPath] = sp
		}
	})
	return P, nil
}

// writeOverlay writes the reduced ipfs.go and a go build overlay file mapping it over repo's ipfs/ipfs.go.
func writeOverlay(repo, dir string) error {
	src, err := os.ReadFile(filepath.Join(repo, "ipfs", "ipfs.go"))
	if err != nil {
		return err
	}
	red, err := reduceIpfs(src)
	if err != nil {
		return err
	}
	if err := os.MkdirAll(dir, 0o755); err != nil {
		return err
	}
	rp := filepath.Join(dir, "ipfs_reduced.go")
	if err := os.WriteFile(rp, red, 0o644); err != nil {
		return err
	}
	ov := fmt.Sprintf("{\"Replace\": {%q: %q}}\n", filepath.Join(repo, "ipfs", "ipfs.go"), rp)
	return os.WriteFile(filepath.Join(dir, "overlay.json"), []byte(ov), 0o644)
}
