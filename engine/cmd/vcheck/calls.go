package main

import (
	"fmt"
	"go/token"
	"go/types"
	"math/big"
	"os"
	"runtime/debug"
	"sort"
	"strings"

	"golang.org/x/tools/go/ssa"
	"golang.org/x/tools/go/ssa/ssautil"
)

// ---------- resolver ----------

type Resolver struct {
	bigGlobals    map[*ssa.Global]*big.Int
	implCache     map[string][]*ssa.Function
	implOK        map[string]bool
	methodsByName map[string][]*ssa.Function
	nonNilGlobals map[*ssa.Global]bool
	byName        map[string]*FuncSpec
	wild          []wildSpec
	allFuncs      map[string]*ssa.Function
	missing       []*FuncSpec
	fvCands       map[string][]*ssa.Function // functions used as values, by signature
}

type wildSpec struct {
	prefix string
	spec   *FuncSpec
}

// qualify turns a key written relative to pkgPath into ssa's fully qualified form.
func qualifyKey(key, pkgPath string) string {
	if pkgPath == "" {
		return key
	}
	// already qualified: (*pkg.T).M, (pkg.T).M or pkg.F
	if strings.HasPrefix(key, "(") {
		if i := strings.Index(key, ")"); i > 0 && strings.Contains(key[:i], ".") {
			return key
		}
	} else if strings.Contains(strings.SplitN(key, "$", 2)[0], ".") {
		return key
	}
	if strings.HasPrefix(key, "(*") {
		return "(*" + pkgPath + "." + key[2:]
	}
	if strings.HasPrefix(key, "(") {
		return "(" + pkgPath + "." + key[1:]
	}
	return pkgPath + "." + key
}

func newResolver(P *Program, db *SpecDB) *Resolver {
	r := &Resolver{byName: map[string]*FuncSpec{}, allFuncs: map[string]*ssa.Function{}}
	for fn := range ssautil.AllFunctions(P.SSA) {
		r.allFuncs[fn.String()] = fn
	}
	for _, fs := range db.Funcs {
		q := qualifyKey(fs.Key, fs.PkgPath)
		if strings.HasSuffix(q, ".*") {
			r.wild = append(r.wild, wildSpec{strings.TrimSuffix(q, "*"), fs})
			continue
		}
		if prev, dup := r.byName[q]; dup && prev != fs {
			fmt.Fprintf(os.Stderr, "vcheck: two contracts for %s (%s and %s)\n", q, prev.PkgPath, fs.PkgPath)
			os.Exit(2)
		}
		r.byName[q] = fs
	}
	sort.Slice(r.wild, func(i, j int) bool { return len(r.wild[i].prefix) > len(r.wild[j].prefix) })
	r.findNonNilGlobals()
	return r
}

func (r *Resolver) lookupName(name string) *FuncSpec {
	if fs, ok := r.byName[name]; ok {
		return fs
	}
	for _, w := range r.wild {
		if strings.HasPrefix(name, w.prefix) && !strings.Contains(name[len(w.prefix):], ".") {
			return w.spec
		}
	}
	return nil
}

func (r *Resolver) forFunc(fn *ssa.Function) *FuncSpec {
	if fn == nil {
		return nil
	}
	if o := fn.Origin(); o != nil {
		fn = o
	}
	name := fn.String()
	name = strings.TrimSuffix(name, "$bound")
	name = strings.TrimSuffix(name, "$thunk")
	return r.lookupName(name)
}

func (r *Resolver) forMethod(m *types.Func) *FuncSpec {
	return r.lookupName(m.FullName())
}

// ---------- write sets ----------

func (e *Enc) allFieldCompNames(t types.Type, out map[string]bool) {
	st := structOf(t)
	if st == nil {
		for _, l := range e.leavesSafe(t) {
			out["C "+typeKey(t.Underlying())+l.path] = true
		}
		return
	}
	for i := 0; i < st.NumFields(); i++ {
		ft := st.Field(i).Type()
		if e.subObj(ft) {
			e.allFieldCompNames(ft, out)
			continue
		}
		for _, l := range e.leavesSafe(ft) {
			out["F "+structKey(t)+" "+st.Field(i).Name()+l.path] = true
		}
	}
}

func (e *Enc) leavesSafe(t types.Type) (ls []leaf) {
	defer func() {
		if r := recover(); r != nil {
			if _, ok := r.(unsupported); !ok {
				panic(r)
			}
			ls = nil
		}
	}()
	return e.leaves(t)
}

func (e *Enc) storeCompNames(addr ssa.Value, out map[string]bool) {
	if fa, ok := addr.(*ssa.FieldAddr); ok {
		S := derefType(fa.X.Type())
		ft := structOf(S).Field(fa.Field).Type()
		if e.subObj(ft) {
			e.allFieldCompNames(ft, out)
		} else {
			for _, l := range e.leavesSafe(ft) {
				out["F "+structKey(S)+" "+structOf(S).Field(fa.Field).Name()+l.path] = true
			}
		}
		return
	}
	t := derefType(addr.Type())
	if t == nil {
		return
	}
	if e.isBigInt(t) {
		out["bigval"] = true
		return
	}
	e.allFieldCompNames(t, out)
}

func (e *Enc) mapCompNames(m *types.Map, out map[string]bool) {
	for _, l := range e.leavesSafe(m.Elem()) {
		out["MV "+typeKey(m)+l.path] = true
	}
	out["MH "+typeKey(m)] = true
	out["ML "+typeKey(m)] = true
}

var lockNoops = map[string]bool{}

func isLockNoop(name string) bool {
	for _, p := range []string{"(*sync.Mutex).", "(*sync.RWMutex).", "(*github.com/sasha-s/go-deadlock.Mutex).", "(*github.com/sasha-s/go-deadlock.RWMutex).", "(*sync.WaitGroup).", "(*sync.Once).Do"} {
		if strings.HasPrefix(name, p) {
			return !strings.HasSuffix(name, ".Do")
		}
	}
	return false
}

// isWrapper: compiler-made wrapper (bound method value, thunk, promoted-method wrapper): its body
// just calls the wrapped function and is analysed like program code.
func isWrapper(fn *ssa.Function) bool {
	return fn != nil && fn.Synthetic != "" && fn.Pkg == nil
}

func inRepo(fn *ssa.Function) bool {
	return fn != nil && fn.Pkg != nil && strings.HasPrefix(fn.Pkg.Pkg.Path(), modPath) || (fn != nil && fn.Pkg == nil && fn.Parent() != nil && inRepo(fn.Parent()))
}

// rootsAtStackAlloc: the address is inside a local variable that does not escape the function.
func rootsAtStackAlloc(a ssa.Value) bool {
	for {
		switch x := a.(type) {
		case *ssa.FieldAddr:
			a = x.X
		case *ssa.IndexAddr:
			if _, isPtr := x.X.Type().Underlying().(*types.Pointer); !isPtr {
				return false
			}
			a = x.X
		case *ssa.Alloc:
			return !x.Heap
		default:
			return false
		}
	}
}

func (ws *writeSet) add(o writeSet) {
	if o.all {
		wsDebug(207)
		ws.all, ws.allPlain = true, true
	}
	if o.extern {
		ws.extern = true
	}
	for k := range o.names {
		ws.names[k] = true
	}
}

func (e *Enc) instrWrites(ins ssa.Instruction, ws *writeSet, depth int, seen map[*ssa.Function]bool) {
	switch v := ins.(type) {
	case *ssa.Store:
		if rootsAtStackAlloc(v.Addr) {
			break
		}
		if rootAllocOf(v.Addr) != nil {
			if ws.fresh == nil {
				ws.fresh = map[string]bool{}
			}
			e.storeCompNames(v.Addr, ws.fresh) // initialisation of an object the writer allocated
			break
		}
		e.withWatch(ws, ins, func() { e.storeCompNames(v.Addr, ws.names) })
	case *ssa.MapUpdate:
		e.withWatch(ws, ins, func() { e.mapCompNames(v.Map.Type().Underlying().(*types.Map), ws.names) })
	case *ssa.Call:
		e.wsInsStack = append(e.wsInsStack, ins)
		e.callWrites(&v.Call, ws, depth, seen)
		e.wsInsStack = e.wsInsStack[:len(e.wsInsStack)-1]
	case *ssa.Defer:
		e.wsInsStack = append(e.wsInsStack, ins)
		e.callWrites(&v.Call, ws, depth, seen)
		e.wsInsStack = e.wsInsStack[:len(e.wsInsStack)-1]
	case *ssa.Go:
		// goroutines are not modelled
	case *ssa.Alloc, *ssa.MakeMap, *ssa.MakeSlice, *ssa.MakeChan, *ssa.Convert:
		// allocation only
	case *ssa.Send, *ssa.Select:
	}
}

// wsSite: an instruction that (non-freshly) writes a watched heap component, with the chain of
// functions through which the write-set traversal reached it.
type wsSite struct {
	name  string
	ins   ssa.Instruction
	chain []string
}

// withWatch runs one leaf step of the write-set computation and records, per watched component,
// whether THIS step writes it (independently of earlier writers).
func (e *Enc) withWatch(ws *writeSet, ins ssa.Instruction, step func()) {
	if ws.watch == nil {
		step()
		return
	}
	had := map[string]bool{}
	for n := range ws.watch {
		if ws.names[n] {
			had[n] = true
			delete(ws.names, n)
		}
	}
	step()
	for n := range ws.watch {
		if ws.names[n] && ins != nil {
			*ws.sites = append(*ws.sites, wsSite{n, ins, append([]string(nil), e.wsStack...)})
		}
		if had[n] {
			ws.names[n] = true
		}
	}
}

func (e *Enc) wsCurIns() ssa.Instruction {
	if len(e.wsInsStack) == 0 {
		return nil
	}
	return e.wsInsStack[len(e.wsInsStack)-1]
}

// callWrites accumulates into ws the heap components a call may write, transitively: contracts
// (assigns clauses) where they exist, otherwise the bodies of repository functions (every function
// visited once: the result is the union over everything reachable), interface calls resolved by
// class-hierarchy analysis, external code by the external-frame rule.
func (e *Enc) callWrites(c *ssa.CallCommon, ws *writeSet, depth int, seen map[*ssa.Function]bool) {
	if b, ok := c.Value.(*ssa.Builtin); ok {
		switch b.Name() {
		case "append", "copy":
			if sl, ok := c.Args[0].Type().Underlying().(*types.Slice); ok {
				e.withWatch(ws, e.wsCurIns(), func() { e.allFieldCompNames(sl.Elem(), ws.names) })
			}
		case "delete", "clear":
			if m, ok := c.Args[0].Type().Underlying().(*types.Map); ok {
				e.mapCompNames(m, ws.names)
			} else {
				wsDebug(260)
				ws.all, ws.allPlain = true, true
			}
		}
		return
	}
	if c.IsInvoke() {
		if spec := e.R.forMethod(c.Method); spec != nil {
			e.specWrites(spec, c.Signature(), nil, ws)
			return
		}
		cands, _ := e.R.implementations(c.Value.Type(), c.Method)
		nRepo, nExt := 0, 0
		for _, cand := range cands {
			if inRepo(cand) {
				nRepo++
			} else {
				nExt++
			}
		}
		if nRepo+nExt == 0 || nRepo > 40 {
			wsDebug(272)
			if os.Getenv("VCHECK_WSDEBUG") != "" {
				fmt.Fprintf(os.Stderr, "  invoke %s: %d implementations\n", c.Method.FullName(), len(cands))
			}
			ws.all, ws.allPlain = true, true
			return
		}
		for _, cand := range cands {
			if !inRepo(cand) {
				continue
			}
			e.funcWrites(cand, c, ws, depth, seen)
			if ws.all {
				return
			}
		}
		if nExt > 0 {
			// implementations outside the program write their own (external) state and what they
			// reach from the arguments
			seenT := map[string]bool{}
			ps := c.Signature().Params()
			for i := 0; i < ps.Len(); i++ {
				switch ps.At(i).Type().Underlying().(type) {
				case *types.Signature, *types.Interface:
					wsDebug(273)
					ws.all, ws.allPlain = true, true
					return
				}
				if !e.externReach(ps.At(i).Type(), ws.names, seenT, 0) {
					wsDebug(274)
					ws.all, ws.allPlain = true, true
					return
				}
			}
			ws.extern = true
		}
		return
	}
	callee := c.StaticCallee()
	if callee == nil {
		if mc, ok := c.Value.(*ssa.MakeClosure); ok {
			callee = mc.Fn.(*ssa.Function)
		}
	}
	if callee == nil {
		// call through a function value (closed world): the value is a function of the program that
		// is used as a value somewhere and has this signature, or an external function, which
		// can write only what it reaches from its arguments
		if target := e.resolveFV(c.Value); target != nil {
			e.funcWrites(target, c, ws, depth, seen)
			return
		}
		for _, cand := range e.R.funcValueCands(c.Signature()) {
			e.funcWrites(cand, c, ws, depth, seen)
			if ws.all {
				return
			}
		}
		seenT := map[string]bool{}
		ps := c.Signature().Params()
		if strings.Contains(sigKey(c.Signature()), modPath) {
			// a signature that names a type of this program cannot belong to external code
			return
		}
		for i := 0; i < ps.Len(); i++ {
			if !e.externReach(ps.At(i).Type(), ws.names, seenT, 0) {
				wsDebug(303)
				if os.Getenv("VCHECK_WSDEBUG") != "" {
					fmt.Fprintf(os.Stderr, "  function value of type %s param %s\n", c.Signature(), ps.At(i).Type())
				}
				ws.all, ws.allPlain = true, true
				return
			}
		}
		return
	}
	e.funcWrites(callee, c, ws, depth, seen)
}

// bindFreeVars: what the enclosing function bound to the function-typed free variables of the
// closure that owns fv (needed when the closure itself is the function being checked: the
// MakeClosure in its parent was not met on the way).
func (e *Enc) bindFreeVars(fv *ssa.FreeVar) {
	if _, ok := e.fvFree[fv]; ok {
		return
	}
	cl := fv.Parent()
	if cl == nil || cl.Parent() == nil {
		return
	}
	if e.fvFree == nil {
		e.fvFree = map[*ssa.FreeVar]ssa.Value{}
	}
	n := 0
	var found *ssa.MakeClosure
	for _, b := range cl.Parent().Blocks {
		for _, ins := range b.Instrs {
			if mc, ok := ins.(*ssa.MakeClosure); ok && mc.Fn == cl {
				n++
				found = mc
			}
		}
	}
	if n != 1 {
		return
	}
	for i, b := range found.Bindings {
		if i < len(cl.FreeVars) {
			bt := b.Type().Underlying()
			if pt, ok := bt.(*types.Pointer); ok {
				bt = pt.Elem().Underlying()
			}
			if _, ok := bt.(*types.Signature); ok {
				if _, have := e.fvFree[cl.FreeVars[i]]; !have {
					e.fvFree[cl.FreeVars[i]] = b
				}
			}
		}
	}
}

// resolveFV follows a function value to the function it denotes when that is known from the
// syntactic context: a closure made here, a function reference, or a parameter of a function
// whose caller (in the current write-set traversal) passed a known function.
func (e *Enc) resolveFV(v ssa.Value) *ssa.Function {
	for i := 0; i < 8 && v != nil; i++ {
		switch x := v.(type) {
		case *ssa.Function:
			return x
		case *ssa.MakeClosure:
			f, _ := x.Fn.(*ssa.Function)
			if f != nil {
				// remember what the closure captured (function values captured by value)
				if e.fvFree == nil {
					e.fvFree = map[*ssa.FreeVar]ssa.Value{}
				}
				for i, b := range x.Bindings {
					if i < len(f.FreeVars) {
						bt := b.Type().Underlying()
						if pt, ok := bt.(*types.Pointer); ok {
							bt = pt.Elem().Underlying()
						}
						if _, ok := bt.(*types.Signature); ok {
							e.fvFree[f.FreeVars[i]] = b
						}
					}
				}
			}
			return f
		case *ssa.FreeVar:
			e.bindFreeVars(x)
			b, ok := e.fvFree[x]
			if !ok {
				return nil
			}
			v = b
		case *ssa.Parameter:
			b, ok := e.fvBind[x]
			if !ok {
				return nil
			}
			v = b
		case *ssa.ChangeType:
			v = x.X
		case *ssa.UnOp:
			// load of a captured variable: the cell is written exactly once (a parameter or local
			// that a closure captures and nobody reassigns)
			if x.Op != token.MUL {
				return nil
			}
			cell := x.X
			if fv, ok := cell.(*ssa.FreeVar); ok {
				e.bindFreeVars(fv)
				b, ok := e.fvFree[fv]
				if !ok {
					return nil
				}
				cell = b
			}
			al, ok := cell.(*ssa.Alloc)
			if !ok || al.Referrers() == nil {
				return nil
			}
			var stored ssa.Value
			n := 0
			for _, r := range *al.Referrers() {
				if st, ok := r.(*ssa.Store); ok && st.Addr == al {
					stored = st.Val
					n++
				}
			}
			if n != 1 {
				return nil
			}
			v = stored
		default:
			return nil
		}
	}
	return nil
}

// funcValueCands: repo functions that are used as values (closures, method values, function
// references that are not the callee of the instruction) and whose signature matches sig.
func (r *Resolver) funcValueCands(sig *types.Signature) []*ssa.Function {
	if r.fvCands == nil {
		r.fvCands = map[string][]*ssa.Function{}
		used := map[*ssa.Function]bool{}
		for _, fn := range r.allFuncs {
			for _, b := range fn.Blocks {
				for _, ins := range b.Instrs {
					var skip *ssa.Value
					if cc, ok := ins.(ssa.CallInstruction); ok {
						skip = &cc.Common().Value
					}
					for _, op := range ins.Operands(nil) {
						if op == skip || *op == nil {
							continue
						}
						switch v := (*op).(type) {
						case *ssa.Function:
							used[v] = true
						case *ssa.MakeClosure:
							if f2, ok := v.Fn.(*ssa.Function); ok {
								used[f2] = true
							}
						}
					}
					if mc, ok := ins.(*ssa.MakeClosure); ok {
						if f2, ok := mc.Fn.(*ssa.Function); ok {
							used[f2] = true
						}
					}
				}
			}
		}
		for fn := range used {
			if !inRepo(fn) && fn.Synthetic == "" {
				continue
			}
			k := sigKey(fn.Signature)
			r.fvCands[k] = append(r.fvCands[k], fn)
		}
		for k := range r.fvCands {
			l := r.fvCands[k]
			sort.Slice(l, func(i, j int) bool { return l[i].String() < l[j].String() })
		}
	}
	return r.fvCands[sigKey(sig)]
}

// sigKey: parameter and result types of a signature (the receiver of a bound method is not part
// of the function value's type).
func sigKey(sig *types.Signature) string {
	return types.TypeString(types.NewSignatureType(nil, nil, nil, sig.Params(), sig.Results(), sig.Variadic()), nil)
}

func (ws *writeSet) addAllBut(keep map[string]bool) {
	if ws.allPlain {
		return
	}
	if !ws.all || ws.allBut == nil {
		if ws.all {
			return // already everything
		}
		wsDebug(375)
		ws.all = true
		ws.allBut = map[string]bool{}
		for k := range keep {
			ws.allBut[k] = true
		}
		return
	}
	for k := range ws.allBut {
		if !keep[k] {
			delete(ws.allBut, k)
		}
	}
}

func (e *Enc) specWrites(spec *FuncSpec, sig *types.Signature, callee *ssa.Function, ws *writeSet) {
	if spec.Pure {
		return
	}
	if !spec.HasAssigns {
		if os.Getenv("VCHECK_WSDEBUG") != "" {
			fmt.Fprintf(os.Stderr, "write set becomes ALL: contract of %s has no assigns clause\n", spec.Key)
		}
		ws.all, ws.allPlain, ws.allBut = true, true, nil
		return
	}
	names, all := e.assignCompNames(spec, sig, callee)
	if all {
		if kb := e.lastAllBut; kb != nil {
			e.lastAllBut = nil
			ws.addAllBut(kb)
		} else {
			if os.Getenv("VCHECK_WSDEBUG") != "" {
				fmt.Fprintf(os.Stderr, "write set becomes ALL: assigns clause of %s covers everything here\n", spec.Key)
			}
			ws.all, ws.allPlain, ws.allBut = true, true, nil
		}
	}
	for _, n := range names {
		ws.names[n] = true
	}
}

func (e *Enc) funcWrites(callee *ssa.Function, c *ssa.CallCommon, ws *writeSet, depth int, seen map[*ssa.Function]bool) {
	if isLockNoop(callee.String()) {
		return
	}
	// a contract without assigns clause says nothing about the frame: the body does
	bodyBetter := func(spec *FuncSpec) bool {
		return !spec.HasAssigns && !spec.Pure && inRepo(callee) && len(callee.Blocks) > 0
	}
	if spec := e.R.forFunc(callee); spec != nil && !spec.PreOnly && !bodyBetter(spec) {
		if c != nil && c.StaticCallee() == callee {
			e.wsCall = c
		}
		if c != nil && c.StaticCallee() == callee && isBigMethod(callee) && len(c.Args) > 0 && isFreshBig(c.Args[0], 0) {
			// arithmetic into a number object the writer created itself (big.NewInt(0).Add(..),
			// new(big.Int).Mul(..)): older numbers keep their values
			tmp := writeSet{names: map[string]bool{}}
			e.specWrites(spec, callee.Signature, callee, &tmp)
			e.wsCall = nil
			if !tmp.all {
				if ws.fresh == nil {
					ws.fresh = map[string]bool{}
				}
				for n := range tmp.names {
					ws.fresh[n] = true
				}
				return
			}
		}
		e.withWatch(ws, e.wsCurIns(), func() { e.specWrites(spec, callee.Signature, callee, ws) })
		e.wsCall = nil
		return
	}
	if (inRepo(callee) || isWrapper(callee)) && len(callee.Blocks) > 0 {
		// function-typed parameters are bound to what this call passes (when known), so that
		// "calls its callback" resolves to the callback of this call; such callees are re-analysed
		// per call instead of once
		hasFnParam := false
		var bound []*ssa.Parameter
		var actuals []ssa.Value
		if c != nil {
			if c.IsInvoke() && len(c.Args)+1 == len(callee.Params) {
				actuals = append([]ssa.Value{nil}, c.Args...)
			} else if !c.IsInvoke() && len(c.Args) == len(callee.Params) {
				actuals = c.Args
			}
		}
		for i, p := range callee.Params {
			if _, ok := p.Type().Underlying().(*types.Signature); ok {
				hasFnParam = true
				if actuals != nil && actuals[i] != nil {
					if t := e.resolveFV(actuals[i]); t != nil {
						if e.fvBind == nil {
							e.fvBind = map[*ssa.Parameter]ssa.Value{}
						}
						if _, dup := e.fvBind[p]; !dup {
							e.fvBind[p] = t
							bound = append(bound, p)
						}
					}
				}
			}
		}
		defer func() {
			for _, p := range bound {
				delete(e.fvBind, p)
			}
		}()
		if hasFnParam {
			if depth > 60 || e.fvActive[callee] > 2 {
				wsDebug(1)
				ws.all, ws.allPlain = true, true
				return
			}
			if e.fvActive == nil {
				e.fvActive = map[*ssa.Function]int{}
			}
			e.fvActive[callee]++
			defer func() { e.fvActive[callee]-- }()
		} else {
			if seen[callee] {
				return
			}
			seen[callee] = true
		}
		why := os.Getenv("VCHECK_WSWHY")
		e.wsStack = append(e.wsStack, callee.String())
		defer func() { e.wsStack = e.wsStack[:len(e.wsStack)-1] }()
		for _, b := range callee.Blocks {
			for _, ins := range b.Instrs {
				had := why != "" && ws.names[why]
				e.instrWrites(ins, ws, depth+1, seen)
				if why != "" && !had && ws.names[why] && !e.wsWhyDone {
					e.wsWhyDone = true
					fmt.Fprintf(os.Stderr, "WSWHY %s first written by %s at %s\n  via %s\n", why, ins, e.posStr(ins.Pos()), strings.Join(e.wsStack, "\n   -> "))
				}
				if ws.all {
					return
				}
			}
		}
		return
	}
	if (!inRepo(callee) && !isWrapper(callee)) || len(callee.Blocks) == 0 {
		// (assembly routines of the program are treated like external code)
		// external code writes only what it can reach from its receiver and arguments (by static
		// type); a callback or an interface-typed argument makes that unknown
		sig := callee.Signature
		var ts []types.Type
		if sig.Recv() != nil {
			ts = append(ts, sig.Recv().Type())
		}
		for i := 0; i < sig.Params().Len(); i++ {
			ts = append(ts, sig.Params().At(i).Type())
		}
		seenT := map[string]bool{}
		curIns := e.wsCurIns()
		for ti, t := range ts {
			// an argument of type interface{}: what the external code can reach is given by the
			// static type of the value that is boxed at this call site
			if it, ok := t.Underlying().(*types.Interface); ok && it.NumMethods() == 0 && c != nil && c.StaticCallee() == callee && ti < len(c.Args) {
				if mi, ok := c.Args[ti].(*ssa.MakeInterface); ok {
					t = mi.X.Type()
				}
			}
			// a callback or a non-empty interface handed to external code: the external code may call
			// it, i.e. run any program function of that signature that is used as a value / any
			// program implementation of the interface's methods (closed world)
			switch u := t.Underlying().(type) {
			case *types.Signature:
				var target *ssa.Function
				if c != nil && c.StaticCallee() == callee && ti < len(c.Args) {
					target = e.resolveFV(c.Args[ti])
				}
				if target != nil {
					e.funcWrites(target, nil, ws, depth, seen)
					if ws.all {
						return
					}
					ws.extern = true
					continue
				}
				for _, cand := range e.R.funcValueCands(u) {
					e.funcWrites(cand, c, ws, depth, seen)
					if ws.all {
						return
					}
				}
				ws.extern = true
				continue
			case *types.Interface:
				if u.NumMethods() > 0 && !isErrorType(t) {
					for i := 0; i < u.NumMethods(); i++ {
						impls, _ := e.R.implementations(t, u.Method(i))
						for _, cand := range impls {
							if !inRepo(cand) {
								continue
							}
							e.funcWrites(cand, c, ws, depth, seen)
							if ws.all {
								return
							}
						}
					}
					ws.extern = true
					continue
				}
			}
			reached := true
			e.withWatch(ws, curIns, func() { reached = e.externReach(t, ws.names, seenT, 0) })
			if !reached {
				wsDebug(448)
				if os.Getenv("VCHECK_WSDEBUG") != "" {
					fmt.Fprintf(os.Stderr, "  external callee %s param type %s\n", callee, t)
				}
				ws.all, ws.allPlain = true, true
				return
			}
		}
		ws.extern = true // ghost state of external objects (database contents, sets) may change
		return
	}
	wsDebug(455)
	if os.Getenv("VCHECK_WSDEBUG") != "" {
		fmt.Fprintf(os.Stderr, "  repo function without body %s\n", callee)
	}
	ws.all, ws.allPlain = true, true
}

// implementations: concrete methods that an interface method call can dispatch to (CHA).
func (r *Resolver) implementations(recv types.Type, m *types.Func) ([]*ssa.Function, bool) {
	iface, ok := recv.Underlying().(*types.Interface)
	if !ok {
		return nil, false
	}
	key := typeKey(recv) + "." + m.Name()
	if r.implCache == nil {
		r.implCache = map[string][]*ssa.Function{}
		r.implOK = map[string]bool{}
		r.methodsByName = map[string][]*ssa.Function{}
		for _, fn := range r.allFuncs {
			if fn.Signature.Recv() != nil && fn.Synthetic == "" {
				r.methodsByName[fn.Name()] = append(r.methodsByName[fn.Name()], fn)
			}
		}
	}
	if v, ok := r.implCache[key]; ok {
		return v, r.implOK[key]
	}
	var out []*ssa.Function
	for _, fn := range r.methodsByName[m.Name()] {
		rt := fn.Signature.Recv().Type()
		if types.Implements(rt, iface) || types.Implements(types.NewPointer(rt), iface) {
			out = append(out, fn)
		}
	}
	good := len(out) > 0 && len(out) <= 40
	sort.Slice(out, func(i, j int) bool { return out[i].String() < out[j].String() })
	r.implCache[key] = out
	r.implOK[key] = good
	return out, good
}

func isErrorType(t types.Type) bool {
	return types.Identical(t, types.Universe.Lookup("error").Type())
}

// ---------- calls ----------

func (f *FnEnc) argVals(c *ssa.CallCommon) []Val {
	var args []Val
	for _, a := range c.Args {
		args = append(args, f.val(a))
	}
	return args
}

func (f *FnEnc) resultVal(sig *types.Signature, hint string) Val {
	rs := sig.Results()
	switch rs.Len() {
	case 0:
		return nil
	case 1:
		return f.e.freshVal(rs.At(0).Type(), hint, f.st.Alloc)
	}
	return f.e.freshVal(rs, hint, f.st.Alloc)
}

func (f *FnEnc) call(c *ssa.CallCommon, v ssa.Value, pos token.Pos) Val {
	e := f.e
	hint := f.pfx + ".call"
	if v != nil {
		hint = f.name(v)
	}
	if b, ok := c.Value.(*ssa.Builtin); ok {
		return f.builtin(b, c, hint, pos)
	}
	sig := c.Signature()
	if c.IsInvoke() {
		recv := f.term(c.Value)
		f.safety("nil", tNot(tEq(recv, tInt(0))), pos, "")
		args := append([]Val{recv}, f.argVals(c)...)
		if spec := e.R.forMethod(c.Method); spec != nil {
			return f.applyContract(spec, c.Method.Type().(*types.Signature), c.Method.FullName(), args, append([]ssa.Value{c.Value}, c.Args...), true, hint, pos)
		}
		// closed world: an interface method with exactly one implementation in the program, which
		// is under contract, is a static call of that implementation on the payload pointer
		if impls, ok := e.R.implementations(c.Value.Type(), c.Method); ok && len(impls) == 1 && inRepo(impls[0]) {
			impl := impls[0]
			if spec := e.R.forFunc(impl); spec != nil {
				if _, isPtr := impl.Signature.Recv().Type().(*types.Pointer); isPtr {
					e.abstracted[fnDisplayName(f.fn)+": dynamic call "+c.Method.FullName()+" resolved to its only implementation "+fnDisplayName(impl)+" (closed world)"] = true
					f.assume(tEq(app(SInt, "dyntype", recv), e.typeTag(impl.Signature.Recv().Type())))
					pl := e.define("devirt", app(SInt, "ifacepl", recv))
					args2 := append([]Val{pl}, args[1:]...)
					return f.applyContract(spec, impl.Signature, impl.String(), args2, append([]ssa.Value{c.Value}, c.Args...), true, hint, pos)
				}
			}
		}
		e.abstracted[fnDisplayName(f.fn)+": dynamic call "+c.Method.FullName()+": write set of its implementations is havocked"] = true
		f.checkEscapes(args, c.Method.FullName())
		f.fieldPtrArgs(args, sig, c.Method.FullName())
		ws := writeSet{names: map[string]bool{}}
		e.callWrites(c, &ws, 0, map[*ssa.Function]bool{})
		f.argAliasWrites(args, c, &ws)
		f.st = f.havocWrites(ws)
		return f.resultVal(sig, hint)
	}
	var callee *ssa.Function
	var frees []Val
	switch fv := f.valOrNil(c.Value).(type) {
	case ClosureV:
		callee = fv.Fn
		frees = fv.Bindings
	}
	if callee == nil {
		callee = c.StaticCallee()
	}
	if callee == nil {
		// call through a function value
		args := f.argVals(c)
		f.checkEscapes(args, "function value")
		f.fieldPtrArgs(args, sig, "function value")
		ws := writeSet{names: map[string]bool{}}
		e.callWrites(c, &ws, 0, map[*ssa.Function]bool{})
		f.argAliasWrites(args, c, &ws)
		if ws.all {
			e.abstracted[fnDisplayName(f.fn)+": call through function value havocs the heap"] = true
		} else {
			e.abstracted[fnDisplayName(f.fn)+": call through function value: write set of every function of that signature used as a value is havocked (closed world)"] = true
		}
		f.st = f.havocWrites(ws)
		return f.resultVal(sig, hint)
	}
	name := callee.String()
	if isLockNoop(name) {
		return nil
	}
	if name == "sort.Search" && len(c.Args) == 2 {
		if r, ok := f.sortSearch(c, hint); ok {
			return r
		}
	}
	args := f.argVals(c)
	spec := e.R.forFunc(callee)
	if spec != nil && spec.PreOnly {
		// check the preconditions here, then treat the callee as if it had no contract
		f.applyContract(spec, callee.Signature, name, args, c.Args, callee.Signature.Recv() != nil, hint, pos)
		spec = nil
	}
	if spec != nil && !(spec.Inline && len(callee.Blocks) > 0) {
		hasRecv := callee.Signature.Recv() != nil
		f.applyCallee, f.applyCall = callee, c
		defer func() { f.applyCallee, f.applyCall = nil, nil }()
		return f.applyContract(spec, callee.Signature, name, args, c.Args, hasRecv, hint, pos)
	}
	if inRepo(callee) && len(callee.Blocks) > 0 && f.canInline(callee) {
		return f.inline(callee, spec, args, frees)
	}
	f.checkEscapes(args, name)
	f.fieldPtrArgs(args, sig, name)
	ws := writeSet{names: map[string]bool{}}
	e.callWrites(c, &ws, 0, map[*ssa.Function]bool{})
	f.argAliasWrites(args, c, &ws)
	if inRepo(callee) || len(frees) > 0 {
		// components this function's contract declares preserved across this callee are kept: the
		// declaration is checked by its own obligations (one per writing instruction, see
		// preserveObligations), every other obligation may rely on it
		if f.top && f.spec != nil && (!ws.all || (ws.allBut != nil && !ws.allPlain)) {
			for _, pv := range f.spec.Preserves {
				for _, cn := range pv.Callees {
					if cn == fnDisplayName(callee) {
						for _, comp := range pv.Comps {
							delete(ws.names, expandComp(comp))
						}
					}
				}
			}
		}
		if os.Getenv("VCHECK_WSDEBUG") == "2" {
			fmt.Fprintf(os.Stderr, "write set of %s: all=%v extern=%v\n  names: %v\n  fresh: %v\n", fnDisplayName(callee), ws.all, ws.extern, sortedKeys(ws.names), sortedKeys(ws.fresh))
		}
		e.abstracted[fnDisplayName(f.fn)+": call "+fnDisplayName(callee)+" (no contract, not inlined): its transitive write set is havocked"] = true
		f.st = f.havocWrites(ws)
		return f.resultVal(sig, hint)
	}
	// external function without contract
	e.abstracted[fnDisplayName(f.fn)+": external call "+name+" (no contract)"] = true
	if f.fieldPtrArgs(args, sig, name) {
		wsDebug(609)
		ws.all, ws.allPlain = true, true
	}
	for _, a := range c.Args {
		if sl, ok := a.Type().Underlying().(*types.Slice); ok && f.viewElem[typeKey(sl.Elem().Underlying())] {
			wsDebug(613)
			ws.all, ws.allPlain = true, true // the slice may view a repo array field; the callee may write through it
		}
	}
	f.st = f.havocWrites(ws)
	return f.resultVal(sig, hint)
}

// argAliasWrites: arguments that alias memory the type-based write set would not name: the address
// of a scalar struct field (the callee writes it as a *T cell) and slices over viewed arrays.
func (f *FnEnc) argAliasWrites(args []Val, c *ssa.CallCommon, ws *writeSet) {
	for _, a := range args {
		if fp, ok := a.(FieldPtr); ok {
			ft := structOf(fp.S).Field(fp.Field).Type()
			for _, l := range f.e.leavesSafe(ft) {
				ws.names["F "+structKey(fp.S)+" "+structOf(fp.S).Field(fp.Field).Name()+l.path] = true
			}
		}
	}
	for _, a := range c.Args {
		if sl, ok := a.Type().Underlying().(*types.Slice); ok && f.viewElem[typeKey(sl.Elem().Underlying())] {
			wsDebug(633)
			ws.all, ws.allPlain = true, true
		}
	}
}

// havocWrites havocs exactly the components of a write set.
// localCompsHit: does the write set touch the components holding local variable a?
func (f *FnEnc) localCompsHit(t types.Type, ws writeSet) bool {
	if ws.all {
		return true
	}
	names := map[string]bool{}
	f.e.allFieldCompNames(t, names)
	for n := range names {
		if ws.names[n] || ws.fresh[n] {
			return true
		}

	}
	return false
}

func (f *FnEnc) havocWrites(ws writeSet) *State {
	if dbg := os.Getenv("VCHECK_WS"); dbg != "" {
		for _, d := range strings.Split(dbg, ";") {
			fmt.Fprintf(os.Stderr, "havoc in %s at %s: all=%v plain=%v allBut=%d extern=%v names[%s]=%v fresh=%v\n", fnDisplayName(f.fn), f.e.posStr(f.curPos), ws.all, ws.allPlain, len(ws.allBut), ws.extern, d, ws.names[d], ws.fresh[d])
		}
	}
	saved := f.saveLocalsFor(ws)
	var st *State
	if ws.all && ws.allBut != nil && !ws.allPlain {
		keep := ws.allBut
		st = f.e.havocState(f.st, func(c *Comp) bool { return keep[c.Name] })
	} else if ws.all {
		st = f.e.havocState(f.st, nil)
	} else {
		names, fresh, ext := ws.names, ws.fresh, ws.extern
		extGhost := func(c *Comp) bool { return ext && !c.Repo && strings.HasPrefix(c.Name, "GF ") }
		st = f.e.havocState2(f.st,
			func(c *Comp) bool { return !names[c.Name] && !fresh[c.Name] && !extGhost(c) },
			func(c *Comp) bool { return !names[c.Name] && fresh[c.Name] && !extGhost(c) })
	}
	f.restoreLocals(st, saved)
	return st
}

type savedLocal struct {
	ref Term
	t   types.Type
	v   Val
}

// saveLocals reads the local variables whose address has not escaped: no callee can write them.
func (f *FnEnc) saveLocals() []savedLocal {
	return f.saveLocalsFor(writeSet{all: true})
}

func (f *FnEnc) saveLocalsFor(ws writeSet) []savedLocal {
	var out []savedLocal
	if f.parent != nil {
		out = f.parent.saveLocalsAt(ws, f.st)
	}
	return append(out, f.saveLocalsAt(ws, f.st)...)
}

func (f *FnEnc) saveLocalsAt(ws writeSet, st *State) []savedLocal {
	var out []savedLocal
	if f.parent != nil && st != f.st {
		out = f.parent.saveLocalsAt(ws, st)
	}
	for _, a := range f.locals {
		if f.escaped[a] {
			continue
		}
		if f.noRestore[a] {
			continue // written by the loop whose havoc this is: its value is NOT what it was before
		}
		if !f.localCompsHit(derefType(a.Type()), ws) {
			continue // its components are not havocked at all
		}
		ref, ok := f.vals[a].(Term)
		if !ok {
			continue
		}
		t := derefType(a.Type())
		if f.e.isBigInt(t) || (!isRepoType(t) && f.e.isStructT(t)) {
			continue
		}
		if _, isArr := t.Underlying().(*types.Array); isArr && f.isLocalElemwiseArray(a) {
			continue
		}
		func() {
			defer func() {
				if r := recover(); r != nil {
					if _, ok := r.(unsupported); !ok {
						panic(r)
					}
				}
			}()
			out = append(out, savedLocal{ref, t, f.e.loadAt(st, ref, t)})
		}()
	}
	return out
}

func (f *FnEnc) restoreLocals(st *State, saved []savedLocal) {
	for _, s := range saved {
		func() {
			defer func() {
				if r := recover(); r != nil {
					if _, ok := r.(unsupported); !ok {
						panic(r)
					}
				}
			}()
			f.e.storeAt(st, s.ref, s.t, s.v)
		}()
	}
}

func (f *FnEnc) valOrNil(v ssa.Value) (r Val) {
	defer func() {
		if x := recover(); x != nil {
			if _, ok := x.(unsupported); !ok {
				panic(x)
			}
			r = nil
		}
	}()
	return f.val(v)
}

func (f *FnEnc) checkEscapes(args []Val, callee string) {
	// slices viewing non-local arrays: a callee with unknown effects may write through them.
	// (All such callees havoc the cell components; the unit array values are havocked with them.)
}

// fieldPtrEscapes: the address of a scalar struct field is passed to a callee whose effects are
// havocked. That is sound (the field's component is havocked too) unless the callee can hand the
// pointer back as an ordinary *T, which our per-field heap could not alias.
func (f *FnEnc) fieldPtrArgs(args []Val, sig *types.Signature, callee string) bool {
	has := false
	for _, a := range args {
		fp, ok := a.(FieldPtr)
		if !ok {
			continue
		}
		has = true
		ft := structOf(fp.S).Field(fp.Field).Type()
		rs := sig.Results()
		for i := 0; i < rs.Len(); i++ {
			if p, ok := rs.At(i).Type().Underlying().(*types.Pointer); ok && types.Identical(p.Elem(), ft) {
				f.e.hazard("address of scalar field passed to %s which returns a pointer of the same type", callee)
			}
		}
	}
	return has
}

func (f *FnEnc) canInline(callee *ssa.Function) bool {
	if f.depth >= 6 {
		return false
	}
	if f.e.topSpec != nil && f.e.topSpec.OpaqueCallees {
		return false
	}
	for _, s := range f.e.inlineStack {
		if s == callee {
			return false
		}
	}
	n := 0
	for _, b := range callee.Blocks {
		n += len(b.Instrs)
	}
	return n <= 400 && f.e.budget > n
}

func (f *FnEnc) inline(callee *ssa.Function, spec *FuncSpec, args, frees []Val) Val {
	e := f.e
	e.inlineStack = append(e.inlineStack, callee)
	defer func() { e.inlineStack = e.inlineStack[:len(e.inlineStack)-1] }()
	sub := e.newFnEnc(callee, spec, f.depth+1, false)
	sub.parent = f
	res := sub.run(f.reach, args, frees, f.st)
	f.reach = res.reach
	f.st = res.st
	if res.taint != "" {
		f.setTaint("in " + fnDisplayName(callee) + ": " + res.taint)
	}
	if f.reach.S == "false" {
		// callee never returns: give results arbitrary values
		return f.resultVal(callee.Signature, sub.pfx+".nores")
	}
	switch len(res.results) {
	case 0:
		return nil
	case 1:
		return res.results[0]
	}
	return TupleV(res.results)
}

// ---------- contracts at call sites ----------

type binding struct {
	v Val
	t types.Type
}

func bindParams(sig *types.Signature, args []Val, hasRecv bool, explicit []string) map[string]binding {
	m := map[string]binding{}
	i := 0
	if hasRecv && sig.Recv() != nil {
		if len(args) > 0 {
			b := binding{args[0], sig.Recv().Type()}
			m["recv"] = b
			if n := sig.Recv().Name(); n != "" && n != "_" {
				m[n] = b
			}
		}
		i = 1
	} else if hasRecv {
		// interface method: receiver is args[0] with unknown static name
		if len(args) > 0 {
			m["recv"] = binding{args[0], nil}
		}
		i = 1
	}
	for k := 0; k < sig.Params().Len(); k++ {
		if i+k >= len(args) {
			break
		}
		p := sig.Params().At(k)
		b := binding{args[i+k], p.Type()}
		m[fmt.Sprintf("arg%d", k)] = b
		if n := p.Name(); n != "" && n != "_" {
			m[n] = b
		}
		if k < len(explicit) {
			m[explicit[k]] = b
		}
	}
	return m
}

func bindResults(sig *types.Signature, res Val, m map[string]binding) {
	rs := sig.Results()
	switch rs.Len() {
	case 0:
	case 1:
		b := binding{res, rs.At(0).Type()}
		m["result"] = b
		m["result0"] = b
		if n := rs.At(0).Name(); n != "" && n != "_" {
			m[n] = b
		}
	default:
		tv := res.(TupleV)
		for k := 0; k < rs.Len(); k++ {
			b := binding{tv[k], rs.At(k).Type()}
			m[fmt.Sprintf("result%d", k)] = b
			if n := rs.At(k).Name(); n != "" && n != "_" {
				m[n] = b
			}
		}
	}
}

func (f *FnEnc) pkgOf(spec *FuncSpec) *types.Package {
	if spec.PkgPath != "" {
		if p := f.e.P.ByPath[spec.PkgPath]; p != nil {
			return p.Types
		}
	}
	return nil
}

func (f *FnEnc) applyContract(spec *FuncSpec, sig *types.Signature, name string, args []Val, srcs []ssa.Value, hasRecv bool, hint string, pos token.Pos) Val {
	e := f.e
	if spec.Trusted {
		e.trustedUsed[name] = true
	}
	vars := bindParams(sig, args, hasRecv, spec.Params)
	pre := f.st.clone()
	ctx := &SpecCtx{e: e, f: f, vars: vars, st: pre, old: pre, pkg: f.pkgOf(spec)}
	if len(srcs) == len(args) {
		ctx.srcArgs = map[string]ssa.Value{}
		var dummy []Val
		for i := range srcs {
			dummy = append(dummy, i)
		}
		for k, b := range bindParams(sig, dummy, hasRecv, spec.Params) {
			ctx.srcArgs[k] = srcs[b.v.(int)]
		}
	}
	short := strings.ReplaceAll(name, modPath+"/", "")
	assumedPre := false
	if f.top && f.spec != nil {
		for _, cn := range f.spec.AssumesPre {
			if cn == strings.ReplaceAll(name, modPath+"/", "") {
				assumedPre = true
			}
		}
	}
	for i, c := range spec.Requires {
		g := f.evalClauseSafe(ctx, c)
		if assumedPre {
			e.abstracted[fnDisplayName(f.fn)+": ASSUMED precondition of "+short+" ("+clauseLabel(c, i)+") at its call site (assumes-pre)"] = true
		} else {
			f.addObl("pre", short+"/"+clauseLabel(c, i)+"@"+f.srcAt(pos), g, pos, nil, c.Src)
		}
		f.assume(g)
	}
	for i, c := range spec.Needs {
		// without these the callee panics: an obligation for no-panic proofs, a fact of every
		// normally returning execution otherwise
		g := f.evalClauseSafe(ctx, c)
		if e.nopanic && !f.recovers {
			f.addObl("pre", short+"/needs-"+clauseLabel(c, i)+"@"+f.srcAt(pos), g, pos, nil, c.Src)
		}
		f.assume(g)
	}
	if spec.PreOnly {
		return nil
	}
	if !spec.Pure {
		f.checkEscapes(args, name)
	}
	// results first: assigns clauses may mention them (e.g. a ghost attribute of the new object)
	oldAlloc := f.st.Alloc
	if spec.HasAssigns || !spec.Pure {
		// the callee may allocate (also when it has no assigns clause: its results are typed
		// against the allocation counter, and fresh(result) must be satisfiable)
		f.st = f.st.clone()
		na := e.freshConst("alloc", SInt)
		e.fact(tLe(f.st.Alloc, na))
		f.st.Alloc = na
	}
	res := f.resultVal(sig, hint)
	post := map[string]binding{}
	for k, v := range vars {
		post[k] = v
	}
	if res != nil {
		bindResults(sig, res, post)
	}
	_ = oldAlloc
	// frame
	if !spec.HasAssigns {
		// no assigns clause: the callee may write whatever its body (transitively) writes - when the
		// body is at hand that bounds the havoc, otherwise everything
		ws := writeSet{all: true}
		if cal := f.applyCallee; cal != nil && !spec.Trusted && inRepo(cal) && len(cal.Blocks) > 0 {
			ws2 := writeSet{names: map[string]bool{}}
			e.funcWrites(cal, f.applyCall, &ws2, 0, map[*ssa.Function]bool{})
			if f.applyCall != nil {
				f.argAliasWrites(args, f.applyCall, &ws2)
			}
			ws = ws2
		}
		f.st = f.havocWrites(ws)
	} else {
		actx := &SpecCtx{e: e, f: f, vars: post, st: pre, old: pre, pkg: f.pkgOf(spec), srcArgs: ctx.srcArgs}
		for _, tg := range f.assignTargets(spec, actx) {
			f.havocTarget(tg)
		}
	}
	ctx2 := &SpecCtx{e: e, f: f, vars: post, st: f.st, old: pre, pkg: f.pkgOf(spec)}
	for _, c := range spec.Ensures {
		if c.NoAssume {
			continue
		}
		// a postcondition that cannot be stated at this call site (it names a local of the callee,
		// or uses a construct the encoder lacks here) is not assumed: less knowledge, never unsound
		g, ok := f.evalClauseOpt(ctx2, c)
		if !ok {
			continue
		}
		f.assume(g)
	}
	return res
}

func (f *FnEnc) evalClauseOpt(ctx *SpecCtx, c *Clause) (g Term, ok bool) {
	defer func() {
		if r := recover(); r != nil {
			if _, isU := r.(unsupported); isU {
				g, ok = tTrue, false
				return
			}
			panic(r)
		}
	}()
	return ctx.evalBool(c.E), true
}

type assignTarget struct {
	comp   *Comp
	ref    Term   // pointwise index; empty S = whole component
	mapKey Term   // for map entries
	more   []Term // deeper indices (ghost functions)
	whole  bool
	// whole-component havoc that leaves every object allocated before this reference untouched
	olderThan Term
	allBut    map[string]bool // comp == nil: havoc everything except these components
}

func (tg assignTarget) indices() []Term {
	var idx []Term
	if tg.ref.S != "" {
		idx = append(idx, tg.ref)
	}
	if tg.mapKey.S != "" {
		idx = append(idx, tg.mapKey)
	}
	return append(idx, tg.more...)
}

func nestedSelect(arr Term, idx []Term) Term {
	for _, i := range idx {
		arr = tSelect(arr, i)
	}
	return arr
}

func nestedStore(arr Term, idx []Term, v Term) Term {
	if len(idx) == 0 {
		return v
	}
	return tStore(arr, idx[0], nestedStore(tSelect(arr, idx[0]), idx[1:], v))
}

func sortDepth(s Sort) int {
	d := 0
	for isArr(s) {
		_, s = arrParts(s)
		d++
	}
	return d
}

func (f *FnEnc) assignTargets(spec *FuncSpec, ctx *SpecCtx) []assignTarget {
	var out []assignTarget
	for _, a := range spec.Assigns {
		if a.All {
			out = append(out, assignTarget{whole: true})
			continue
		}
		out = append(out, ctx.locations(a.E)...)
	}
	return out
}

func (f *FnEnc) havocTarget(tg assignTarget) {
	e := f.e
	if tg.comp == nil {
		if tg.allBut != nil {
			keep := tg.allBut
			if dbg := os.Getenv("VCHECK_WS"); dbg != "" {
				fmt.Fprintf(os.Stderr, "havoc-allbut in %s at %s: keeps %d comps, keep[%s]=%v\n", fnDisplayName(f.fn), f.e.posStr(f.curPos), len(keep), dbg, keep[dbg])
			}
			saved := f.saveLocals()
			alloc := f.st.Alloc
			f.st = e.havocState(f.st, func(c *Comp) bool { return keep[c.Name] })
			f.restoreLocals(f.st, saved)
			_ = alloc
			return
		}
		f.st = f.havocWrites(writeSet{all: true})
		return
	}
	c := tg.comp
	cur := e.lookup(f.st, c)
	if tg.whole || c.Scalar {
		nv := e.freshConst(c.Name+"'", c.Sort)
		e.compTypingFact(c, nv, f.st.Alloc)
		if tg.olderThan.S != "" && !c.Scalar && isArr(c.Sort) {
			if is, _ := arrParts(c.Sort); is == SInt {
				e.fact(Term{fmt.Sprintf("(forall ((r Int)) (! (=> (< (rootof r) %s) (= (select %s r) (select %s r))) :pattern ((select %s r))))", tg.olderThan.S, nv.S, cur.S, nv.S), SBool})
			}
		}
		f.st.H[c.Name] = nv
		return
	}
	idx := tg.indices()
	inner := nestedSelect(cur, idx).Sort
	fv := e.freshConst(c.Name+"'at", inner)
	if len(idx) == 1 && !isArr(inner) {
		if c.ValType != nil {
			e.fact(e.typingFact(c.ValType, fv, Term{}))
		}
		if strings.HasSuffix(c.Name, ".len") || strings.HasSuffix(c.Name, ".cap") || strings.HasSuffix(c.Name, ".off") {
			if inner == SInt {
				e.fact(tAnd(tLe(tInt(0), fv), tLe(fv, Term{maxLen, SInt})))
			}
		}
	}
	e.update(f.st, c, nestedStore(cur, idx, fv))
}

// assignCompNames: component names a contract may write (for loop write sets).
func (e *Enc) assignCompNames(spec *FuncSpec, sig *types.Signature, callee *ssa.Function) (names []string, all bool) {
	defer func() {
		if r := recover(); r != nil {
			if _, ok := r.(unsupported); !ok {
				panic(r)
			}
			all = true
		}
	}()
	// evaluate targets on dummy arguments
	var args []Val
	st := e.initStateDummy()
	hasRecv := false
	if sig.Recv() != nil {
		hasRecv = true
		args = append(args, e.freshVal(sig.Recv().Type(), "dummy", Term{}))
	} else if callee == nil {
		hasRecv = true
		args = append(args, e.freshConst("dummy", SInt))
	}
	for i := 0; i < sig.Params().Len(); i++ {
		args = append(args, e.freshVal(sig.Params().At(i).Type(), "dummy", Term{}))
	}
	vars := bindParams(sig, args, hasRecv, spec.Params)
	var pkg *types.Package
	if spec.PkgPath != "" && e.P.ByPath[spec.PkgPath] != nil {
		pkg = e.P.ByPath[spec.PkgPath].Types
	}
	ctx := &SpecCtx{e: e, vars: vars, st: st, old: st, pkg: pkg}
	if e.wsCall != nil && len(e.wsCall.Args) == len(args) {
		// static types of the actual arguments (for reach() of interface-typed parameters)
		ctx.srcArgs = map[string]ssa.Value{}
		var dummy []Val
		for i := range args {
			dummy = append(dummy, i)
		}
		for k, b := range bindParams(sig, dummy, hasRecv, spec.Params) {
			ctx.srcArgs[k] = e.wsCall.Args[b.v.(int)]
		}
	}
	for _, a := range spec.Assigns {
		if a.All {
			return nil, true
		}
		for _, tg := range ctx.locations(a.E) {
			if tg.comp == nil {
				e.lastAllBut = tg.allBut
				return nil, true
			}
			names = append(names, tg.comp.Name)
		}
	}
	return names, false
}

func (e *Enc) initStateDummy() *State {
	ep := &Epoch{id: -1, kind: epInit, memo: map[string]Term{}, alloc: tInt(0)}
	// share memo with nothing: components are declared under @0 names only once
	return &State{H: map[string]Term{}, Base: e.dummyEpoch(ep), Alloc: tInt(0)}
}

var dummyEpochs = map[*Enc]*Epoch{}

func (e *Enc) dummyEpoch(ep *Epoch) *Epoch {
	if d, ok := dummyEpochs[e]; ok {
		return d
	}
	ep.kind = epHavoc
	ep.id = 999999
	e.epochCtr++
	dummyEpochs[e] = ep
	return ep
}

// ---------- postconditions of the function under verification ----------

func (f *FnEnc) topVars() map[string]binding {
	fn := f.fn
	m := map[string]binding{}
	sig := fn.Signature
	k := 0
	for i, p := range fn.Params {
		b := binding{f.args[i], p.Type()}
		if i == 0 && sig.Recv() != nil {
			m["recv"] = b
		} else {
			m[fmt.Sprintf("arg%d", k)] = b
			k++
		}
		if p.Name() != "" && p.Name() != "_" {
			m[p.Name()] = b
		}
	}
	for i, fv := range fn.FreeVars {
		if i < len(f.frees) {
			// free variables are captured by reference: expose the pointer under "&name" and the value lazily
			m["&"+fv.Name()] = binding{f.frees[i], fv.Type()}
		}
	}
	return m
}

func (f *FnEnc) checkPost(results []Val, pos token.Pos) {
	if f.spec == nil {
		return
	}
	e := f.e
	vars := f.topVars()
	sig := f.fn.Signature
	var res Val
	switch len(results) {
	case 0:
	case 1:
		res = results[0]
	default:
		res = TupleV(results)
	}
	if res != nil {
		bindResults(sig, res, vars)
	}
	if dbg := os.Getenv("VCHECK_WS"); dbg != "" {
		for _, d := range strings.Split(dbg, ";") {
			if c := e.comps[d]; c != nil {
				fmt.Fprintf(os.Stderr, "at return %d: %s: final=%s entry=%s\n", len(f.rets), d, e.lookup(f.st, c).S, e.lookup(f.entry, c).S)
			}
		}
	}
	ctx := &SpecCtx{e: e, f: f, vars: vars, st: f.st, old: f.entry, pkg: f.fnPkg(), hdrBlock: f.blk, atReturn: true}
	for i, c := range f.spec.Ensures {
		if c.NoProve {
			continue
		}
		g := f.evalClauseSafe(ctx, c)
		f.addObl("post", clauseLabel(c, i)+"@ret"+fmt.Sprint(len(f.rets)), g, pos, c.Props, c.Src)
	}
	if f.spec.HasAssigns {
		f.checkFrame(vars)
	}
}

// checkFrame: every component changed since entry differs only at declared locations
// (among locations that existed at entry).
type frameGoal struct {
	name string
	goal Term
}

func (f *FnEnc) checkFrame(vars map[string]binding) {
	for _, g := range f.frameGoals(vars, f.st) {
		f.addObl("frame", g.name+"@ret"+fmt.Sprint(len(f.rets)), g.goal, token.NoPos, nil, "assigns clause")
	}
}

// frameGoals: for every heap component that differs between the function's entry state and st, the
// formula "every object that existed at entry and is not an assigns target still holds its entry
// value". Used at every return (checkFrame) and, as an implicit invariant, at loop heads.
func (f *FnEnc) frameGoals(vars map[string]binding, st *State) (out []frameGoal) {
	e := f.e
	ctx := &SpecCtx{e: e, f: f, vars: vars, st: f.entry, old: f.entry, pkg: f.fn.Pkg.Pkg}
	var targets []assignTarget
	all := false
	func() {
		defer func() {
			if r := recover(); r != nil {
				if u, ok := r.(unsupported); ok {
					f.setTaint("assigns clause: " + u.why)
					return
				}
				panic(r)
			}
		}()
		for _, tg := range f.assignTargets(f.spec, ctx) {
			if tg.comp == nil {
				all = true
			}
			targets = append(targets, tg)
		}
	}()
	if all {
		return nil
	}
	alloc0 := f.entry.Alloc
	for _, name := range sortedKeys(e.comps) {
		c := e.comps[name]
		cur := e.lookup(st, c)
		init := e.lookup(f.entry, c)
		if cur.S == init.S {
			continue
		}
		whole := false
		depth := sortDepth(c.Sort)
		var qv []Term
		var qdecl []string
		srt := c.Sort
		for d := 0; d < depth; d++ {
			var is Sort
			is, srt = arrParts(srt)
			v := Term{fmt.Sprintf("i%d!", d), is}
			qv = append(qv, v)
			qdecl = append(qdecl, fmt.Sprintf("(%s %s)", v.S, is))
		}
		var excl []Term
		for _, tg := range targets {
			if tg.comp != c {
				continue
			}
			idx := tg.indices()
			if tg.whole || len(idx) == 0 {
				whole = true
				continue
			}
			var eqs []Term
			for k, t := range idx {
				if k < len(qv) {
					eqs = append(eqs, tEq(qv[k], t))
				}
			}
			excl = append(excl, tAnd(eqs...))
		}
		if whole {
			continue
		}
		var goal Term
		if c.Scalar || depth == 0 {
			goal = tEq(cur, init)
		} else {
			existed := app(SBool, "<", app(SInt, "rootof", qv[0]), alloc0)
			if c.IfaceIdx {
				existed = app(SBool, "<", app(SInt, "rootof", app(SInt, "ifacepl", qv[0])), alloc0)
			}
			if qv[0].Sort != SInt {
				existed = tTrue
			}
			cond := tAnd(existed, tNot(tOr(excl...)))
			if strings.HasPrefix(cur.S, "(") || !strings.Contains(cur.S, "@") || strings.Contains(cur.S, "'") {
				goal = Term{fmt.Sprintf("(forall (%s) (=> %s (= %s %s)))", strings.Join(qdecl, " "), cond.S, nestedSelect(cur, qv).S, nestedSelect(init, qv).S), SBool}
			} else {
				goal = Term{fmt.Sprintf("(forall (%s) (! (=> %s (= %s %s)) :pattern (%s)))", strings.Join(qdecl, " "), cond.S, nestedSelect(cur, qv).S, nestedSelect(init, qv).S, nestedSelect(cur, qv).S), SBool}
			}
		}
		out = append(out, frameGoal{c.Name, goal})
	}
	return out
}

// ---------- defers ----------

func (f *FnEnc) execDefer(d *ssa.Defer) {
	c := &d.Call
	if callee := c.StaticCallee(); callee != nil {
		if isLockNoop(callee.String()) {
			return
		}
		if spec := f.e.R.forFunc(callee); spec != nil && spec.Pure {
			return
		}
	}
	if c.IsInvoke() {
		if spec := f.e.R.forMethod(c.Method); spec != nil && spec.Pure {
			return
		}
	}
	dc := deferredCall{call: c, instr: d}
	dc.args = f.argVals(c)
	if !c.IsInvoke() {
		dc.fnv = f.valOrNil(c.Value)
	}
	if !d.Block().Dominates(f.blk) || len(f.loops) > 0 && f.inLoop(d.Block()) {
		f.setTaint("conditional defer")
	}
	f.deferred = append(f.deferred, dc)
}

func (f *FnEnc) inLoop(b *ssa.BasicBlock) bool {
	for _, li := range f.loops {
		if li.body[b] {
			return true
		}
	}
	return false
}

func (f *FnEnc) runDefers() {
	for i := len(f.deferred) - 1; i >= 0; i-- {
		dc := f.deferred[i]
		if !dc.instr.Block().Dominates(f.blk) {
			if !cfgReaches(dc.instr.Block(), f.blk) {
				continue // this return lies before the defer statement: nothing was registered
			}
			f.setTaint("defer does not dominate return")
			continue
		}
		// replay the call with the argument values captured at defer time
		saved := map[ssa.Value]Val{}
		for k, a := range dc.call.Args {
			saved[a] = f.vals[a]
			f.vals[a] = dc.args[k]
		}
		f.call(dc.call, nil, dc.instr.Pos())
		for a, v := range saved {
			if v == nil {
				delete(f.vals, a)
			} else {
				f.vals[a] = v
			}
		}
	}
}

// ---------- builtins ----------

func (f *FnEnc) builtin(b *ssa.Builtin, c *ssa.CallCommon, hint string, pos token.Pos) Val {
	e := f.e
	switch b.Name() {
	case "len", "cap":
		switch xt := c.Args[0].Type().Underlying().(type) {
		case *types.Slice:
			sv := f.val(c.Args[0]).(SliceV)
			if b.Name() == "len" {
				return sv.Len
			}
			return sv.Cap
		case *types.Basic:
			return app(SInt, "strlen", f.term(c.Args[0]))
		case *types.Map:
			m := f.term(c.Args[0])
			ln := tSelect(e.lookup(f.st, e.mapLenComp(xt)), m)
			r := e.define(hint, tIte(tEq(m, tInt(0)), tInt(0), ln))
			e.fact(tLe(tInt(0), r))
			return r
		case *types.Pointer:
			if arr, ok := xt.Elem().Underlying().(*types.Array); ok {
				return tInt(arr.Len())
			}
		case *types.Array:
			return tInt(xt.Len())
		case *types.Chan:
			r := e.freshConst(hint, SInt)
			e.fact(tLe(tInt(0), r))
			return r
		}
		e.unsup("len of %s", c.Args[0].Type())
	case "append":
		return f.builtinAppend(c, hint)
	case "copy":
		return f.builtinCopy(c, hint)
	case "delete":
		mt := c.Args[0].Type().Underlying().(*types.Map)
		f.mapDelete(mt, f.term(c.Args[0]), f.term(c.Args[1]))
		return nil
	case "print", "println", "close":
		return nil
	case "recover":
		return e.freshConst(hint, SInt)
	case "ssa:wrapnilchk":
		x := f.term(c.Args[0])
		f.safety("nil", tNot(tEq(x, tInt(0))), pos, "")
		return x
	case "min", "max":
		if len(c.Args) == 2 && isInteger(c.Args[0].Type()) {
			a, bb := f.term(c.Args[0]), f.term(c.Args[1])
			if b.Name() == "min" {
				return tIte(tLe(a, bb), a, bb)
			}
			return tIte(tLe(a, bb), bb, a)
		}
	}
	e.unsup("builtin %s", b.Name())
	return nil
}

// elemComp: one component holding (a leaf of) the elements of a slice, with the chain of
// sub-object steps from an element reference to the reference the component is indexed by
// (nested struct fields and array fields are sub-objects).
type elemComp struct {
	c    *Comp
	subs []string // sub functions applied to the element reference, outermost last
	invs []string // their inverses, in the same order
}

func (ec elemComp) at(elem string) string {
	x := elem
	for _, fn := range ec.subs {
		x = "(" + fn + " " + x + ")"
	}
	return x
}

// elemOf: the element reference a component index belongs to (inverse of at).
func (ec elemComp) elemOf(p string) string {
	x := p
	for i := len(ec.invs) - 1; i >= 0; i-- {
		x = "(" + ec.invs[i] + " " + x + ")"
	}
	return x
}

// elemComps returns the components holding elements of a slice with element type t.
func (e *Enc) elemComps(t types.Type) (out []elemComp) {
	defer func() {
		if r := recover(); r != nil {
			if _, ok := r.(unsupported); !ok {
				panic(r)
			}
			out = nil
		}
	}()
	var walk func(t types.Type, subs, invs []string)
	walk = func(t types.Type, subs, invs []string) {
		st := structOf(t)
		if st == nil {
			for _, l := range e.leaves(t) {
				out = append(out, elemComp{e.cellComp(t, l), subs, invs})
			}
			return
		}
		for i := 0; i < st.NumFields(); i++ {
			ft := st.Field(i).Type()
			if e.subObj(ft) {
				if e.topSpec == nil || !e.topSpec.PreciseElems {
					e.unsup("nested element type (no precise-elements directive)")
				}
				// make sure the sub function is declared, and take its name
				ref := e.subRef(t, i, Term{"0", SInt})
				fn := strings.TrimSuffix(strings.TrimPrefix(ref.S, "("), " 0)")
				inv := strings.Replace(fn, "|sub ", "|subinv ", 1)
				walk(ft, append(append([]string{}, subs...), fn), append(append([]string{}, invs...), inv))
				continue
			}
			for _, l := range e.leaves(ft) {
				out = append(out, elemComp{e.fieldComp(t, i, l), subs, invs})
			}
		}
	}
	walk(t, nil, nil)
	return out
}

func (f *FnEnc) builtinAppend(c *ssa.CallCommon, hint string) Val {
	e := f.e
	s := f.val(c.Args[0]).(SliceV)
	st := c.Args[0].Type().Underlying().(*types.Slice)
	var tl Term
	var t SliceV
	isStr := false
	if sv, ok := f.val(c.Args[1]).(SliceV); ok {
		t = sv
		tl = sv.Len
	} else {
		// append([]byte, string...)
		isStr = true
		tl = app(SInt, "strlen", f.term(c.Args[1]))
	}
	r := SliceV{e.freshConst(hint+".base", SInt), e.freshConst(hint+".off", SInt), e.define(hint+".len", tAdd(s.Len, tl)), e.freshConst(hint+".cap", SInt)}
	oldAlloc := f.st.Alloc
	f.st.Alloc = e.define("alloc", tAdd(f.st.Alloc, tInt(1)))
	inPlace := tAnd(tEq(r.Base, s.Base), tEq(r.Off, s.Off), tEq(r.Cap, s.Cap), tLe(r.Len, s.Cap), tNot(tEq(s.Base, tInt(0))))
	freshC := tAnd(tEq(r.Base, oldAlloc), tEq(r.Off, tInt(0)))
	// appending nothing to a nil slice yields nil
	nilRes := tAnd(tEq(s.Base, tInt(0)), tEq(tl, tInt(0)), tEq(r.Base, tInt(0)), tEq(r.Off, tInt(0)), tEq(r.Cap, tInt(0)))
	e.fact(tAnd(tLe(r.Len, r.Cap), tLe(r.Cap, Term{maxLen, SInt}), tOr(inPlace, freshC, nilRes)))
	comps := e.elemComps(st.Elem())
	if comps == nil || isStr {
		names := map[string]bool{}
		e.allFieldCompNames(st.Elem(), names)
		f.st = f.havocWrites(writeSet{names: names})
		f.st.Alloc = e.define("alloc", tAdd(f.st.Alloc, tInt(1)))
		return r
	}
	done := map[string]bool{}
	for _, ec := range comps {
		cp := ec.c
		if done[cp.Name] {
			// the same component reached through two paths (two fields of the same nested type):
			// not expressible with one version per component
			names := map[string]bool{}
			e.allFieldCompNames(st.Elem(), names)
			f.st = f.havocWrites(writeSet{names: names})
			return r
		}
		done[cp.Name] = true
		old := e.lookup(f.st, cp)
		nv := e.freshConst(cp.Name+"'app", cp.Sort)
		e.compTypingFact(cp, nv, f.st.Alloc)
		// new cells: prefix copied from s, suffix copied from t, everything else unchanged
		e.fact(Term{fmt.Sprintf("(forall ((i Int)) (! (=> (and (<= 0 i) (< i %s)) (= (select %s %s) (select %s %s))) :pattern ((elemref %s (idxadd %s i)))))",
			s.Len.S, nv.S, ec.at(fmt.Sprintf("(elemref %s (idxadd %s i))", r.Base.S, r.Off.S)), old.S, ec.at(fmt.Sprintf("(elemref %s (idxadd %s i))", s.Base.S, s.Off.S)), r.Base.S, r.Off.S), SBool})
		e.fact(Term{fmt.Sprintf("(forall ((j Int)) (! (=> (and (<= %s j) (< j (+ %s %s))) (= (select %s %s) (select %s %s))) :pattern ((elemref %s (idxadd %s j)))))",
			s.Len.S, s.Len.S, tl.S, nv.S, ec.at(fmt.Sprintf("(elemref %s (idxadd %s j))", r.Base.S, r.Off.S)), old.S, ec.at(fmt.Sprintf("(elemref %s (idxadd %s (- j %s)))", t.Base.S, t.Off.S, s.Len.S)), r.Base.S, r.Off.S), SBool})
		q := ec.elemOf("p")
		e.fact(Term{fmt.Sprintf("(forall ((p Int)) (! (=> (not (and (= (rtag %s) 1) (= (elembase %s) %s) (<= (+ %s %s) (elemidx %s)) (< (elemidx %s) (+ %s %s)))) (= (select %s p) (select %s p))) :pattern ((select %s p))))",
			q, q, r.Base.S, r.Off.S, ite0(freshC, s.Len).S, q, q, r.Off.S, r.Len.S, nv.S, old.S, nv.S), SBool})
		f.st.H[cp.Name] = nv
	}
	return r
}

// ite0(c, x): when the result is a fresh array all its cells [0,len) are new, otherwise only [len(s), newlen).
func ite0(fresh Term, slen Term) Term {
	return tIte(fresh, tInt(0), slen)
}

func (f *FnEnc) builtinCopy(c *ssa.CallCommon, hint string) Val {
	e := f.e
	dst := f.val(c.Args[0]).(SliceV)
	var sl Term
	src, srcIsSlice := f.val(c.Args[1]).(SliceV)
	if srcIsSlice {
		sl = src.Len
	} else {
		sl = app(SInt, "strlen", f.term(c.Args[1]))
	}
	n := e.define(hint, tIte(tLe(dst.Len, sl), dst.Len, sl))
	st := c.Args[0].Type().Underlying().(*types.Slice)
	if f.viewElem[typeKey(st.Elem().Underlying())] {
		f.setTaint("copy into " + st.String() + " while a non-local array of that element type is viewed elementwise")
	}
	comps := e.elemComps(st.Elem())
	if comps == nil || !srcIsSlice {
		names := map[string]bool{}
		e.allFieldCompNames(st.Elem(), names)
		f.st = f.havocWrites(writeSet{names: names})
		return n
	}
	done := map[string]bool{}
	for _, ec := range comps {
		if done[ec.c.Name] {
			names := map[string]bool{}
			e.allFieldCompNames(st.Elem(), names)
			f.st = f.havocWrites(writeSet{names: names})
			return n
		}
		done[ec.c.Name] = true
	}
	pBase, pOff := e.patConst(dst.Base), e.patConst(dst.Off)
	for _, ec := range comps {
		cp := ec.c
		old := e.lookup(f.st, cp)
		nv := e.freshConst(cp.Name+"'cpy", cp.Sort)
		e.compTypingFact(cp, nv, f.st.Alloc)
		e.fact(Term{fmt.Sprintf("(forall ((i Int)) (! (=> (and (<= 0 i) (< i %s)) (= (select %s %s) (select %s %s))) :pattern ((elemref %s (idxadd %s i)))))",
			n.S, nv.S, ec.at(fmt.Sprintf("(elemref %s (idxadd %s i))", pBase.S, pOff.S)), old.S, ec.at(fmt.Sprintf("(elemref %s (idxadd %s i))", src.Base.S, src.Off.S)), pBase.S, pOff.S), SBool})
		// the destination is itself a re-slice x[d:] of a slice with offset O: state the same fact
		// in terms of indices of x, so that it is found from terms written as x[j]
		dOff := dst.Off
		if def, ok := e.defOf[dOff.S]; ok {
			dOff = Term{def, SInt}
		}
		if o, d, ok := splitPlus(dOff); ok {
			po := e.patConst(o)
			e.fact(Term{fmt.Sprintf("(forall ((j Int)) (! (=> (and (<= %s j) (< j (+ %s %s))) (= (select %s %s) (select %s %s))) :pattern ((elemref %s (idxadd %s j)))))",
				d.S, d.S, n.S, nv.S, ec.at(fmt.Sprintf("(elemref %s (idxadd %s j))", pBase.S, po.S)), old.S, ec.at(fmt.Sprintf("(elemref %s (idxadd %s (- j %s)))", src.Base.S, src.Off.S, d.S)), pBase.S, po.S), SBool})
		}
		q := ec.elemOf("p")
		e.fact(Term{fmt.Sprintf("(forall ((p Int)) (! (=> (not (and (= (rtag %s) 1) (= (elembase %s) %s) (<= %s (elemidx %s)) (< (elemidx %s) (+ %s %s)))) (= (select %s p) (select %s p))) :pattern ((select %s p))))",
			q, q, dst.Base.S, dst.Off.S, q, q, dst.Off.S, n.S, nv.S, old.S, nv.S), SBool})
		f.st.H[cp.Name] = nv
	}
	return n
}

// splitPlus: t = (+ a b) at top level.
func splitPlus(t Term) (a, b Term, ok bool) {
	s := t.S
	if !strings.HasPrefix(s, "(+ ") || !strings.HasSuffix(s, ")") {
		return
	}
	body := s[3 : len(s)-1]
	depth, quoted := 0, false
	var parts []string
	start := 0
	for i, r := range body {
		switch r {
		case '|':
			quoted = !quoted
		case '(':
			if !quoted {
				depth++
			}
		case ')':
			if !quoted {
				depth--
			}
		case ' ':
			if depth == 0 && !quoted {
				parts = append(parts, body[start:i])
				start = i + 1
			}
		}
	}
	parts = append(parts, body[start:])
	if len(parts) != 2 {
		return
	}
	return Term{parts[0], SInt}, Term{parts[1], SInt}, true
}

// findNonNilGlobals: package-level variables of pointer/interface type that are assigned only by
// package initialisers and only with values that cannot be nil (errors.New(...), &T{...},
// big.NewInt(...)). Loads from them yield non-nil values at any time.
func (r *Resolver) findNonNilGlobals() {
	r.nonNilGlobals = map[*ssa.Global]bool{}
	r.bigGlobals = map[*ssa.Global]*big.Int{}
	bigInit := map[*ssa.Global]*big.Int{}
	bad := map[*ssa.Global]bool{}
	good := map[*ssa.Global]bool{}
	nonNilCall := func(v ssa.Value) bool {
		switch x := v.(type) {
		case *ssa.Alloc:
			return true
		case *ssa.MakeInterface:
			if _, ok := x.X.(*ssa.Alloc); ok {
				return true
			}
			if c, ok := x.X.(*ssa.Call); ok {
				if callee := c.Call.StaticCallee(); callee != nil {
					return strings.HasPrefix(callee.String(), "errors.New") || strings.HasPrefix(callee.String(), "fmt.Errorf")
				}
			}
		case *ssa.Call:
			if callee := x.Call.StaticCallee(); callee != nil {
				switch callee.String() {
				case "errors.New", "fmt.Errorf", "github.com/pkg/errors.New", "github.com/pkg/errors.Errorf", "math/big.NewInt":
					return true
				}
			}
		case *ssa.MakeMap:
			return true
		}
		return false
	}
	for _, fn := range r.allFuncs {
		isInit := fn.Name() == "init" || strings.HasPrefix(fn.Name(), "init#")
		for _, b := range fn.Blocks {
			for _, ins := range b.Instrs {
				st, ok := ins.(*ssa.Store)
				if !ok {
					// taking the address of the global for other purposes disqualifies it
					for _, op := range ins.Operands(nil) {
						if g, ok := (*op).(*ssa.Global); ok {
							if _, isLoad := ins.(*ssa.UnOp); !isLoad {
								bad[g] = true
							}
						}
					}
					continue
				}
				g, ok := st.Addr.(*ssa.Global)
				if !ok {
					if g2, ok := st.Val.(*ssa.Global); ok {
						bad[g2] = true
					}
					continue
				}
				if isInit && nonNilCall(st.Val) {
					good[g] = true
					if call, ok := st.Val.(*ssa.Call); ok {
						if callee := call.Call.StaticCallee(); callee != nil && callee.String() == "math/big.NewInt" {
							if k, ok := call.Call.Args[0].(*ssa.Const); ok {
								if v, ok := constBig(k); ok {
									bigInit[g] = v
								}
							}
						}
					}
				} else {
					bad[g] = true
				}
			}
		}
	}
	for g := range good {
		if !bad[g] {
			r.nonNilGlobals[g] = true
			if v, ok := bigInit[g]; ok {
				r.bigGlobals[g] = v
			}
		}
	}
}

// externReach collects the components holding memory reachable (by static type) from a value of
// type t handed to external code. Returns false when the reachable set is unknown (function
// values, non-error interfaces).
func (e *Enc) externReach(t types.Type, out map[string]bool, seen map[string]bool, depth int) bool {
	k := typeKey(t)
	if seen[k] {
		return true
	}
	seen[k] = true
	if depth > 12 {
		return false
	}
	switch u := t.Underlying().(type) {
	case *types.Basic:
		return true
	case *types.Signature:
		return false
	case *types.Interface:
		return isErrorType(t)
	case *types.Chan:
		return true
	case *types.Pointer:
		el := u.Elem()
		if e.isBigInt(el) {
			out["bigval"] = true
			return true
		}
		if st := structOf(el); st != nil {
			return e.externStruct(el, st, out, seen, depth)
		}
		for _, l := range e.leavesSafe(el) {
			out["C "+typeKey(el.Underlying())+l.path] = true
		}
		return e.externReach(el, out, seen, depth+1)
	case *types.Slice:
		el := u.Elem()
		if st := structOf(el); st != nil {
			return e.externStruct(el, st, out, seen, depth)
		}
		for _, l := range e.leavesSafe(el) {
			out["C "+typeKey(el.Underlying())+l.path] = true
		}
		return e.externReach(el, out, seen, depth+1)
	case *types.Array:
		return e.externReach(u.Elem(), out, seen, depth+1)
	case *types.Map:
		e.mapCompNames(u, out)
		return e.externReach(u.Key(), out, seen, depth+1) && e.externReach(u.Elem(), out, seen, depth+1)
	case *types.Struct:
		// a struct passed by value: only what its fields point to
		for i := 0; i < u.NumFields(); i++ {
			if !e.externReach(u.Field(i).Type(), out, seen, depth+1) {
				return false
			}
		}
		return true
	}
	return false
}

func (e *Enc) externStruct(T types.Type, st *types.Struct, out map[string]bool, seen map[string]bool, depth int) bool {
	if !isRepoType(T) {
		if _, named := T.(*types.Named); named {
			// memory of an external type: its fields are written by its own package only; our model
			// keeps them in components named after the type
			for i := 0; i < st.NumFields(); i++ {
				for _, l := range e.leavesSafe(st.Field(i).Type()) {
					out["F "+structKey(T)+" "+st.Field(i).Name()+l.path] = true
				}
			}
			return true // what lies behind unexported fields of external types is not modelled
		}
	}
	for i := 0; i < st.NumFields(); i++ {
		ft := st.Field(i).Type()
		if !e.subObj(ft) {
			for _, l := range e.leavesSafe(ft) {
				out["F "+structKey(T)+" "+st.Field(i).Name()+l.path] = true
			}
		} else if _, isArr := ft.Underlying().(*types.Array); isArr {
			for _, l := range e.leavesSafe(ft) {
				out["C "+typeKey(ft.Underlying())+l.path] = true
			}
		}
		if sst := structOf(ft); sst != nil {
			if !e.externStruct(ft, sst, out, seen, depth+1) {
				return false
			}
			continue
		}
		if !e.externReach(ft, out, seen, depth+1) {
			return false
		}
	}
	return true
}

func wsDebug(line int) {
	if os.Getenv("VCHECK_WSDEBUG") != "" {
		fmt.Fprintf(os.Stderr, "write set becomes ALL at calls.go:%d\n%s\n", line, string(debug.Stack()))
	}
}


func isBigMethod(fn *ssa.Function) bool {
	if fn.Signature.Recv() == nil || fn.Pkg == nil || fn.Pkg.Pkg.Path() != "math/big" {
		return false
	}
	_, isPtr := fn.Signature.Recv().Type().(*types.Pointer)
	return isPtr
}

// isFreshBig: v denotes a math/big number object created by the function that uses it: new(T),
// &T{}, big.NewInt/NewFloat/NewRat, or the result of a math/big method on such an object (these
// return their receiver).
func isFreshBig(v ssa.Value, depth int) bool {
	if depth > 6 {
		return false
	}
	switch x := v.(type) {
	case *ssa.Alloc:
		return true
	case *ssa.Const:
		return x.IsNil()
	case *ssa.UnOp:
		// load of a local variable that lives in a cell (captured by a closure, or address taken):
		// fresh when every value ever stored into the cell is
		if x.Op != token.MUL {
			return false
		}
		cell := x.X
		if fv, ok := cell.(*ssa.FreeVar); ok {
			cell = freeVarBinding(fv)
		}
		al, ok := cell.(*ssa.Alloc)
		if !ok || al.Referrers() == nil {
			return false
		}
		n := 0
		for _, r := range *al.Referrers() {
			switch st := r.(type) {
			case *ssa.Store:
				if st.Addr != al {
					return false // the cell's address is stored somewhere
				}
				if !isFreshBig(st.Val, depth+1) {
					return false
				}
				n++
			case *ssa.UnOp, *ssa.MakeClosure, *ssa.DebugRef:
			default:
				return false
			}
		}
		// closures that capture the cell may store into it as well
		for _, r := range *al.Referrers() {
			if mc, ok := r.(*ssa.MakeClosure); ok {
				fn, _ := mc.Fn.(*ssa.Function)
				if fn == nil {
					return false
				}
				for i, b := range mc.Bindings {
					if b != al || i >= len(fn.FreeVars) || fn.FreeVars[i].Referrers() == nil {
						continue
					}
					for _, rr := range *fn.FreeVars[i].Referrers() {
						switch st := rr.(type) {
						case *ssa.Store:
							if st.Addr != fn.FreeVars[i] || !isFreshBig(st.Val, depth+1) {
								return false
							}
						case *ssa.UnOp, *ssa.DebugRef:
						default:
							return false
						}
					}
				}
			}
		}
		return n > 0
	case *ssa.Phi:
		for _, ed := range x.Edges {
			if ed != v && !isFreshBig(ed, depth+1) {
				return false
			}
		}
		return true
	case *ssa.Call:
		callee := x.Call.StaticCallee()
		if callee != nil && inRepo(callee) && len(callee.Blocks) > 0 && callee.Signature.Results().Len() == 1 {
			// a function of the program all of whose returns hand out a number it created
			for _, b := range callee.Blocks {
				if ret, ok := b.Instrs[len(b.Instrs)-1].(*ssa.Return); ok {
					if len(ret.Results) != 1 || !isFreshBig(ret.Results[0], depth+1) {
						return false
					}
				}
			}
			return true
		}
		if callee == nil || callee.Pkg == nil || callee.Pkg.Pkg.Path() != "math/big" {
			return false
		}
		switch callee.Name() {
		case "NewInt", "NewFloat", "NewRat":
			return true
		}
		if isBigMethod(callee) && len(x.Call.Args) > 0 && types.Identical(callee.Signature.Results().At(0).Type(), callee.Signature.Recv().Type()) && callee.Signature.Results().Len() == 1 {
			return isFreshBig(x.Call.Args[0], depth+1)
		}
	}
	return false
}


// expandComp turns the short component name used in contracts ("bigval", "F core/state.Account
// Balance") into the engine's name (module path added).
func expandComp(c string) string {
	c = strings.TrimSpace(c)
	for _, pfx := range []string{"F ", "C "} {
		if strings.HasPrefix(c, pfx) {
			rest := c[len(pfx):]
			star := ""
			for strings.HasPrefix(rest, "*") {
				star += "*"
				rest = rest[1:]
			}
			if strings.HasPrefix(rest, modPath) {
				return c
			}
			// package path = everything up to the last "." of the first token
			tok := rest
			if i := strings.Index(rest, " "); i >= 0 {
				tok = rest[:i]
			}
			if j := strings.LastIndex(tok, "."); j > 0 {
				if expandProgram != nil && expandProgram.ByPath[modPath+"/"+tok[:j]] != nil {
					return pfx + star + modPath + "/" + rest
				}
			}
		}
	}
	return c
}

// expandProgram: the loaded program (to tell packages of this module from others in short names).
var expandProgram *Program

// preserveObligations: one obligation per instruction that writes a preserved component
// (transitively, non-freshly) under a listed callee; none found = one discharged obligation.
func preserveObligations(e *Enc, fn *ssa.Function, fs *FuncSpec) {
	for _, pv := range fs.Preserves {
		props := pv.Props
		if len(props) == 0 {
			props = fs.Props
		}
		watch := map[string]bool{}
		for _, c := range pv.Comps {
			watch[expandComp(c)] = true
		}
		var sites []wsSite
		unknown := ""
		found := 0
		for _, b := range fn.Blocks {
			for _, ins := range b.Instrs {
				call, ok := ins.(*ssa.Call)
				if !ok || call.Call.StaticCallee() == nil {
					continue
				}
				listed := false
				for _, cn := range pv.Callees {
					if cn == fnDisplayName(call.Call.StaticCallee()) {
						listed = true
					}
				}
				if !listed {
					continue
				}
				found++
				ws := writeSet{names: map[string]bool{}, watch: watch, sites: &sites}
				e.wsInsStack = append(e.wsInsStack, ins)
				e.callWrites(&call.Call, &ws, 0, map[*ssa.Function]bool{})
				e.wsInsStack = e.wsInsStack[:len(e.wsInsStack)-1]
				if ws.all {
					covered := ws.allBut != nil && !ws.allPlain
					for w := range watch {
						if !ws.allBut[w] {
							covered = false
						}
					}
					if !covered {
						unknown = fnDisplayName(call.Call.StaticCallee())
						if os.Getenv("VCHECK_WSDEBUG") != "" {
							fmt.Fprintf(os.Stderr, "preserves: %s: all=%v plain=%v allBut=%v watch=%v\n", unknown, ws.all, ws.allPlain, sortedKeys(ws.allBut), sortedKeys(watch))
						}
					}
				}
			}
		}
		name := fnDisplayName(fn) + "/preserves/" + pv.Label
		mk := func(n string, ok bool, why string, pos token.Pos) {
			o := &Obligation{Name: n, Kind: "frame", Fn: fnDisplayName(fn), Reach: tTrue, Goal: tBool(ok), Pos: pos, Props: props, Src: pv.Src}
			if ok {
				o.Verdict, o.Solver = "unsat", "write-set"
			} else {
				o.Verdict, o.Model = "sat", why
			}
			e.obls = append(e.obls, o)
		}
		if found == 0 {
			mk(name+"/exists", false, "none of the listed callees is called in this function", fn.Pos())
			continue
		}
		if unknown != "" {
			mk(name+"/write-set-known", false, "the transitive write set of "+unknown+" could not be bounded (see VCHECK_WSDEBUG=1)", fn.Pos())
			continue
		}
		seenSite := map[string]bool{}
		for _, s := range sites {
			short := strings.ReplaceAll(s.name, modPath+"/", "")
			where := ""
			if pf := s.ins.Parent(); pf != nil {
				where = fnDisplayName(pf) + ":" + srcTextAt(pf, s.ins.Pos())
				sanctioned := false
				for _, ex := range pv.Except {
					if ex == fnDisplayName(pf) {
						sanctioned = true
					}
				}
				if sanctioned {
					continue
				}
			}
			n := name + "/" + strings.ReplaceAll(short, " ", ".") + "@" + where
			if seenSite[n] {
				continue
			}
			seenSite[n] = true
			chain := strings.ReplaceAll(strings.Join(s.chain, " -> "), modPath+"/", "")
			mk(n, false, "component "+short+" may be written by "+s.ins.String()+" at "+e.posStr(s.ins.Pos())+" (object not created by the writer); reached via "+chain, s.ins.Pos())
		}
		if len(seenSite) == 0 {
			mk(name, true, "", fn.Pos())
		}
	}
}


// freeVarBinding: the value a closure's free variable is bound to where the closure is made
// (nil when the closure is made in more than one place with different bindings).
func freeVarBinding(fv *ssa.FreeVar) ssa.Value {
	fn := fv.Parent()
	if fn == nil || fn.Parent() == nil {
		return nil
	}
	idx := -1
	for i, v := range fn.FreeVars {
		if v == fv {
			idx = i
		}
	}
	var found ssa.Value
	for _, b := range fn.Parent().Blocks {
		for _, ins := range b.Instrs {
			if mc, ok := ins.(*ssa.MakeClosure); ok && mc.Fn == fn && idx >= 0 && idx < len(mc.Bindings) {
				if found != nil && found != mc.Bindings[idx] {
					return nil
				}
				found = mc.Bindings[idx]
			}
		}
	}
	return found
}


// sortSearch: sort.Search(n, pred) with a side-effect-free closure. Whatever pred is, the binary
// search returns an index r in [0, n] with (r == 0 or !pred(r-1)) and (r == n or pred(r)); both
// instances of the predicate are obtained by running the closure's body at r-1 and at r.
func (f *FnEnc) sortSearch(c *ssa.CallCommon, hint string) (Val, bool) {
	e := f.e
	cl, ok := f.valOrNil(c.Args[1]).(ClosureV)
	if !ok || cl.Fn == nil {
		return nil, false
	}
	ws := writeSet{names: map[string]bool{}}
	for _, b := range cl.Fn.Blocks {
		for _, ins := range b.Instrs {
			e.instrWrites(ins, &ws, 0, map[*ssa.Function]bool{})
		}
	}
	if ws.all || len(ws.names) > 0 || ws.extern {
		return nil, false
	}
	n := f.term(c.Args[0])
	r := e.freshConst(hint+".search", SInt)
	f.assume(tAnd(tLe(tInt(0), r), tOr(tLe(r, n), tAnd(tLt(n, tInt(0)), tEq(r, tInt(0))))))
	evalAt := func(x Term, guard Term) (after Term, t Term, ok bool) {
		saveReach, saveSt := f.reach, f.st
		f.reach = e.define("search.at", tAnd(f.reach, guard))
		f.st = f.st.clone()
		res := f.inline(cl.Fn, nil, []Val{x}, cl.Bindings)
		after = f.reach
		f.reach, f.st = saveReach, saveSt
		t, ok = res.(Term)
		return after, t, ok && t.Sort == SBool
	}
	a1, t1, ok1 := evalAt(e.define("search.prev", tSub(r, tInt(1))), tLt(tInt(0), r))
	a2, t2, ok2 := evalAt(r, tLt(r, n))
	if !ok1 || !ok2 {
		return nil, false
	}
	// sort.Search returned, so the two calls of the predicate it made at these indices returned
	// normally: what holds after them (callee postconditions, passed run-time checks) is a fact
	f.assume(tImp(tLt(tInt(0), r), tAnd(a1, tNot(t1))))
	f.assume(tImp(tLt(r, n), tAnd(a2, t2)))
	f.e.abstracted[fnDisplayName(f.fn)+": sort.Search modelled by its two boundary instances of the predicate"] = true
	return r, true
}
