package main

// Replay generators: turn the solver's counterexample inputs into an in-package Go test that
// runs the REAL function and checks the violated clause (or the absence of a panic).

import (
	"fmt"
	"math/big"
	"regexp"
	"strings"
)

func init() {
	replayGens = append(replayGens,
		replayGen{match: func(o *Obligation) bool {
			return regexp.MustCompile(`^blockchain/validation\.validate[A-Za-z]*Tx/(nil|index|slice|typeassert|div0)/`).MatchString(o.Name) && !strings.Contains(o.Name, "/in:")
		}, gen: genValidatorPanic},
		replayGen{match: func(o *Obligation) bool {
			return strings.HasPrefix(o.Name, "blockchain.calculatePenalty/post/")
		}, gen: genCalculatePenalty},
		replayGen{match: func(o *Obligation) bool {
			return strings.HasPrefix(o.Name, "(*blockchain.Blockchain).ValidateSubChain/post/tip-certificate-not-empty")
		}, gen: genSubChainEmptyTipCert},
		replayGen{match: func(o *Obligation) bool {
			return strings.HasPrefix(o.Name, "(*consensus.ForkResolver).applyFork/pre/(*blockchain.Blockchain).WriteCertificate")
		}, gen: genApplyForkNilCert},
		replayGen{match: func(o *Obligation) bool {
			return strings.HasPrefix(o.Name, "common.NormalizedEpochDuration/post/weekday-is-host-independent")
		}, gen: genEpochDurationZone},
		replayGen{match: func(o *Obligation) bool {
			return regexp.MustCompile(`^\(\*vm\.VmImpl\)\.Run/preserves/ledger-objects/bigval@\(\*vm/embedded\.OracleVoting2?\)\.Terminate`).MatchString(o.Name)
		}, gen: genTerminateOutOfGas},
		replayGen{match: func(o *Obligation) bool {
			return strings.HasPrefix(o.Name, "(*blockchain.Blockchain).WriteIdentityStateDiff/post/empty-diff-leaves-no-diff-stored")
		}, gen: genStaleIdentityDiff},
		replayGen{match: func(o *Obligation) bool {
			return strings.HasPrefix(o.Name, "(*consensus.ForkResolver).checkForkSize/inv-")
		}, gen: genForkAnswerGap},
	)
}

func smtInt(s string) (string, bool) {
	s = strings.TrimSpace(s)
	if m := regexp.MustCompile(`^\(- (\d+)\)$`).FindStringSubmatch(s); m != nil {
		return "-" + m[1], true
	}
	if regexp.MustCompile(`^\d+$`).MatchString(s) {
		return s, true
	}
	return "", false
}

func inputInt(o *Obligation, name, def string) string {
	if v, ok := o.Inputs[name]; ok {
		if i, ok := smtInt(v); ok {
			return i
		}
	}
	return def
}

func bigLit(o *Obligation, ptrName string) string {
	if inputInt(o, ptrName, "1") == "0" {
		return "nil"
	}
	v := inputInt(o, "val("+ptrName+")", "0")
	return fmt.Sprintf("func() *big.Int { x, _ := new(big.Int).SetString(%q, 10); return x }()", v)
}

// genValidatorPanic: a per-type transaction validator must return a verdict. The transaction
// is built from the model (type, nil-ness of the recipient, amounts, payload length) and signed
// with a throw-away key; for activation transactions the payload is that key's public key (the
// model only fixes that the trusted key parser accepts it).
func genValidatorPanic(o *Obligation, P *Program) (string, string) {
	fn := strings.TrimPrefix(strings.SplitN(o.Name, "/", 3)[1], "validation.")
	to := "nil"
	if inputInt(o, "tx.To", "0") != "0" {
		to = "&common.Address{0x7}"
	}
	plen := inputInt(o, "len(tx.Payload)", "0")
	payload := fmt.Sprintf("make([]byte, %s)", plen)
	if fn == "validateActivationTx" {
		payload = "crypto.FromECDSAPub(&key.PublicKey)"
	}
	txType := inputInt(o, "tx.Type", "0")
	src := fmt.Sprintf(`package validation

import (
	"fmt"
	"math/big"
	"testing"

	"github.com/idena-network/idena-go/blockchain/types"
	"github.com/idena-network/idena-go/common"
	"github.com/idena-network/idena-go/common/eventbus"
	"github.com/idena-network/idena-go/core/appstate"
	"github.com/idena-network/idena-go/crypto"
	db "github.com/tendermint/tm-db"
)

var _ = common.Address{}
var _ = big.NewInt

// Replay of obligation %s
func TestVerifReplay(t *testing.T) {
	key, _ := crypto.GenerateKey()
	appState, _ := appstate.NewAppState(db.NewMemDB(), eventbus.New())
	if err := appState.Initialize(0); err != nil {
		t.Skip(err)
	}
	tx := &types.Transaction{AccountNonce: 1, Type: types.TxType(%s), To: %s, Amount: %s, MaxFee: %s, Tips: %s, Payload: %s}
	signed, err := types.SignTx(tx, key)
	if err != nil {
		t.Skip(err)
	}
	defer func() {
		if r := recover(); r != nil {
			fmt.Println("VERIF-REPLAY-VIOLATION: the validator panicked instead of returning a verdict:", r)
			t.Fail()
		}
	}()
	verdict := %s(appState, signed, TxType(%s))
	fmt.Println("verdict:", verdict)
}
`, o.Name, txType, to, bigLit(o, "tx.Amount"), bigLit(o, "tx.MaxFee"), bigLit(o, "tx.Tips"), payload, fn, inputInt(o, "txType", "0"))
	return src, "blockchain/validation"
}

func genCalculatePenalty(o *Obligation, P *Program) (string, string) {
	src := fmt.Sprintf(`package blockchain

import (
	"fmt"
	"math/big"
	"testing"
)

// Replay of obligation %s
func TestVerifReplay(t *testing.T) {
	balanceAppend, stakeAppend, currentPenalty := %s, %s, %s
	if balanceAppend == nil || stakeAppend == nil {
		t.Skip("precondition")
	}
	in := new(big.Int).Add(balanceAppend, stakeAppend)
	b, s, p, sec := calculatePenalty(balanceAppend, stakeAppend, currentPenalty, uint16(%s), int64(%s), int64(%s))
	out := new(big.Int).Add(b, s)
	bad := b.Sign() < 0 || s.Sign() < 0 || out.Cmp(in) > 0 || uint16(sec) > uint16(%s)
	if p != nil {
		if new(big.Int).Add(out, p).Cmp(in) != 0 || p.Sign() < 0 || (currentPenalty != nil && p.Cmp(currentPenalty) > 0) {
			bad = true
		}
	}
	if bad {
		fmt.Printf("VERIF-REPLAY-VIOLATION: calculatePenalty(%%v,%%v,%%v,...) = (%%v,%%v,%%v,%%v) breaks conservation\n", balanceAppend, stakeAppend, currentPenalty, b, s, p, sec)
		t.Fail()
	}
}
`, o.Name, bigLit(o, "balanceAppend"), bigLit(o, "stakeAppend"), bigLit(o, "currentPenalty"), inputInt(o, "currentPenaltySeconds", "0"), inputInt(o, "penaltyTimestamp", "0"), inputInt(o, "blockTimestamp", "0"), inputInt(o, "currentPenaltySeconds", "0"))
	return src, "blockchain"
}

// genSubChainEmptyTipCert: the model says the tip bundle carries a certificate object that is not nil
// but has no signatures. Build a real fork on a real test chain, give its tip such a certificate and
// ask the real ValidateSubChain.
func genSubChainEmptyTipCert(o *Obligation, P *Program) (string, string) {
	src := fmt.Sprintf(`package blockchain

import (
	"fmt"
	"testing"

	"github.com/idena-network/idena-go/blockchain/types"
	"github.com/idena-network/idena-go/crypto"
)

// Replay of obligation %s
func TestVerifReplay(t *testing.T) {
	key, _ := crypto.GenerateKey()
	chain, _ := NewCustomTestBlockchain(30, 0, key)
	defer chain.SecStore().Destroy()
	peer, _ := chain.Copy()
	chain.GenerateBlocks(2, 1)
	peer.GenerateBlocks(6, 0)
	fork := peer.ReadBlockForForkedPeer(chain.GetTopBlockHashes(100))
	if len(fork) == 0 {
		t.Skip("no fork produced")
	}
	for i := range fork {
		fork[i].Cert = &types.BlockCert{} // not nil, but without a single signature
	}
	common := fork[0].Block.Height() - 1
	err := chain.ValidateSubChain(common, fork)
	if err == nil {
		fmt.Printf("VERIF-REPLAY-VIOLATION: ValidateSubChain accepted a fork of %%d blocks whose tip certificate has %%d signatures\n", len(fork), len(fork[len(fork)-1].Cert.Signatures))
		t.Fail()
	} else {
		fmt.Println("refused:", err)
	}
}
`, o.Name)
	return src, "blockchain"
}

// genApplyForkNilCert: a fork whose intermediate bundle has no certificate (nil) but whose tip is
// certified passes ValidateSubChain; applying it must not crash.
func genApplyForkNilCert(o *Obligation, P *Program) (string, string) {
	src := fmt.Sprintf(`package consensus

import (
	"fmt"
	"testing"

	"github.com/idena-network/idena-go/blockchain"
	"github.com/idena-network/idena-go/blockchain/types"
	"github.com/idena-network/idena-go/crypto"
	"github.com/idena-network/idena-go/stats/collector"
)

// Replay of obligation %s
func TestVerifReplay(t *testing.T) {
	key, _ := crypto.GenerateKey()
	chain, _ := blockchain.NewCustomTestBlockchain(30, 0, key)
	defer chain.SecStore().Destroy()
	peer, _ := chain.Copy()
	chain.GenerateBlocks(2, 1)
	peer.GenerateBlocks(6, 0)
	fork := peer.ReadBlockForForkedPeer(chain.GetTopBlockHashes(100))
	if len(fork) < 2 {
		t.Skip("no fork produced")
	}
	fork[0].Cert = nil // the peer has no certificate for an intermediate block
	resolver := NewForkResolver([]ForkDetector{}, nil, chain.Blockchain, collector.NewStatsCollector())
	blocks := make(chan types.BlockBundle, len(fork))
	for _, b := range fork {
		blocks <- b
	}
	close(blocks)
	if err := resolver.processBlocks(blocks, "peer"); err != nil || !resolver.HasLoadedFork() {
		t.Skip("fork was refused: ", err)
	}
	defer func() {
		if r := recover(); r != nil {
			fmt.Println("VERIF-REPLAY-VIOLATION: applying an accepted fork crashed the node after the rollback:", r)
			t.Fail()
		}
	}()
	_, err := resolver.ApplyFork()
	fmt.Println("applied:", err)
}
`, o.Name)
	return src, "consensus"
}

// genEpochDurationZone: the epoch length must be the same on every host. The instant and the
// host's zone offset come from the model (witness terms sec/off); the weekday only depends on the
// instant modulo one week, so an out-of-range model instant is reduced into the present. The
// network size is re-derived (NetworkParams is opaque to the solver): the model's size first, then
// representative sizes.
func genEpochDurationZone(o *Obligation, P *Program) (string, string) {
	sec, ok1 := new(big.Int).SetString(inputInt(o, "sec", "0"), 10)
	if !ok1 {
		sec = big.NewInt(0)
	}
	week := big.NewInt(604800)
	base := big.NewInt(1700092800) // a Thursday 00:00 UTC, multiple of one week since the epoch
	m := new(big.Int).Mod(sec, week)
	secN := new(big.Int).Add(base, m)
	off := inputInt(o, "off", "0")
	size := inputInt(o, "networkSize", "5000")
	v12 := "true"
	if strings.Contains(o.Inputs["enableUpgrade12"], "false") {
		v12 = "false"
	}
	src := fmt.Sprintf(`package common

import (
	"fmt"
	"testing"
	"time"
)

// Replay of obligation %s
func TestVerifReplay(t *testing.T) {
	instant := time.Unix(%s, 0)
	host := time.FixedZone("host", %s)
	for _, size := range []int{%s, 300, 5000, 20000, 200000} {
		if size < 0 {
			continue
		}
		onHost := NormalizedEpochDuration(instant.In(host), size, %s)
		onUtc := NormalizedEpochDuration(instant.UTC(), size, %s)
		if onHost != onUtc {
			fmt.Printf("VERIF-REPLAY-VIOLATION: epoch after the validation at %%v (network size %%d) lasts %%v on a host at UTC%%+dh but %%v on a UTC host\n", instant.UTC(), size, onHost, %s/3600, onUtc)
			t.Fail()
			return
		}
	}
	fmt.Println("same duration on both hosts")
}
`, o.Name, secN.String(), off, size, v12, v12, off)
	return src, "common"
}

// genTerminateOutOfGas: the oracle-voting Terminate subtracts in place from the number it got from
// env.Balance, which is the ledger's own big.Int when nothing is buffered yet. A termination that
// then runs out of gas is not committed, but the ledger object already carries the new value. The
// scenario (deploy, fund, start, nobody votes, terminate with growing gas limits) runs through the
// real vm.Run; the model gives no inputs (the obligation comes from the write-set analysis).
func genTerminateOutOfGas(o *Obligation, P *Program) (string, string) {
	return "// Replay of obligation " + o.Name + "\n" + terminateOutOfGasTest, "vm"
}

const terminateOutOfGasTest = `package vm

import (
	"fmt"
	"math/big"
	"testing"

	"github.com/idena-network/idena-go/blockchain/attachments"
	"github.com/idena-network/idena-go/blockchain/types"
	"github.com/idena-network/idena-go/common"
	"github.com/idena-network/idena-go/common/eventbus"
	"github.com/idena-network/idena-go/config"
	"github.com/idena-network/idena-go/core/appstate"
	"github.com/idena-network/idena-go/core/state"
	"github.com/idena-network/idena-go/crypto"
	"github.com/idena-network/idena-go/vm/embedded"
	dbm "github.com/tendermint/tm-db"
)

func replayHeader(height uint64, time int64) *types.Header {
	seed := types.Seed{}
	seed.SetBytes(common.ToBytes(height))
	return &types.Header{ProposedHeader: &types.ProposedHeader{BlockSeed: seed, Height: height, Time: time}}
}

// Replay: a TerminateContractTx that runs out of gas after the oracle-voting contract has computed
// its pay-outs must leave the ledger untouched.
func TestVerifReplay(t *testing.T) {
	for _, upgrade10 := range []bool{true, false} {
		appState, _ := appstate.NewAppState(dbm.NewMemDB(), eventbus.New())
		appState.State.SetFeePerGas(big.NewInt(1))
		key, _ := crypto.GenerateKey()
		owner := crypto.PubkeyToAddress(key.PublicKey)
		appState.State.SetBalance(owner, new(big.Int).Mul(common.DnaBase, big.NewInt(100)))
		appState.State.SetPubKey(owner, crypto.FromECDSAPub(&key.PublicKey))
		appState.State.SetState(owner, state.Human)
		appState.IdentityState.SetValidated(owner, true)
		appState.Commit(nil)
		appState.Initialize(1)
		conf := &config.Config{Consensus: config.GetDefaultConsensusConfig()}
		conf.Consensus.EnableUpgrade10 = upgrade10

		// deploy
		params := [][]byte{{0x1}, common.ToBytes(uint64(10)), common.ToBytes(uint64(4320)), common.ToBytes(uint64(4320)),
			common.ToBytes(byte(51)), common.ToBytes(byte(20)), common.ToBytes(uint64(100)), nil, common.ToBytes(byte(10)), nil, nil}
		payload, _ := attachments.CreateDeployContractAttachment(embedded.OracleVotingContract, nil, nil, params...).ToBytes()
		tx, _ := types.SignTx(&types.Transaction{AccountNonce: 1, Type: types.DeployContractTx, Amount: common.DnaBase, Payload: payload}, key)
		r := NewVmImpl(appState, nil, replayHeader(2, 5), nil, conf).Run(tx, nil, -1, true)
		if !r.Success {
			t.Skip("deploy failed: ", r.Error)
		}
		contract := r.ContractAddress
		appState.State.SetBalance(contract, new(big.Int).Mul(common.DnaBase, big.NewInt(10000000)))
		appState.Commit(nil)

		// start voting
		payload, _ = attachments.CreateCallContractAttachment("startVoting").ToBytes()
		tx, _ = types.SignTx(&types.Transaction{AccountNonce: 2, Type: types.CallContractTx, To: &contract, Payload: payload}, key)
		r = NewVmImpl(appState, nil, replayHeader(3, 21), nil, conf).Run(tx, nil, -1, true)
		if !r.Success {
			t.Skip("startVoting failed: ", r.Error)
		}
		appState.Commit(nil)

		// terminate long after the voting with nobody having voted, with growing gas limits
		payload, _ = attachments.CreateTerminateContractAttachment().ToBytes()
		tx, _ = types.SignTx(&types.Transaction{AccountNonce: 3, Type: types.TerminateContractTx, To: &contract, Payload: payload}, key)
		head := replayHeader(3+4320*2+4320*30, 21+20*4320*32)
		before := new(big.Int).Set(appState.State.GetBalance(contract))
		for gas := int64(1); gas < 2000000; gas += 7 {
			r = NewVmImpl(appState, nil, head, nil, conf).Run(tx, nil, gas, true)
			after := appState.State.GetBalance(contract)
			if !r.Success && after.Cmp(before) != 0 {
				fmt.Printf("VERIF-REPLAY-VIOLATION: upgrade10=%v: TerminateContractTx with gas limit %d FAILED (%v) but the ledger balance of the contract changed from %v to %v\n", upgrade10, gas, r.Error, before, after)
				t.Fail()
				break
			}
			if r.Success {
				fmt.Printf("upgrade10=%v: terminate succeeded with gas limit %d without leaving a trace before\n", upgrade10, gas)
				break
			}
		}
	}
}
`

// genStaleIdentityDiff: identity diffs are stored per height; a block with an empty diff must not
// leave the diff of a dropped block of the same height in place. Real test chain: our branch
// switches an identity online (non-empty diff at the identity-update block), the other branch does
// not; after ResetTo + AddBlock of the other branch the stored diff of that height must be gone.
func genStaleIdentityDiff(o *Obligation, P *Program) (string, string) {
	return "// Replay of obligation " + o.Name + "\n" + staleIdentityDiffTest, "blockchain"
}

const staleIdentityDiffTest = `package blockchain

import (
	"fmt"
	"math/big"
	"testing"

	"github.com/idena-network/idena-go/blockchain/attachments"
	"github.com/idena-network/idena-go/blockchain/types"
	"github.com/idena-network/idena-go/common"
	"github.com/idena-network/idena-go/config"
	"github.com/idena-network/idena-go/core/state"
	"github.com/idena-network/idena-go/crypto"
	"github.com/idena-network/idena-go/stats/collector"
	"github.com/shopspring/decimal"
)

// Replay: the identity diff a node stores (and serves to fast-syncing peers) for a height must be
// the diff of the CANONICAL block of that height, also after a reorganisation.
func TestVerifReplay(t *testing.T) {
	key, _ := crypto.GenerateKey()
	addr := crypto.PubkeyToAddress(key.PublicKey)
	consensusCfg := GetDefaultConsensusConfig()
	consensusCfg.Automine = true
	cfg := &config.Config{
		Network:   0x99,
		Consensus: consensusCfg,
		GenesisConf: &config.GenesisConf{
			Alloc: map[common.Address]config.GenesisAllocation{
				addr: {State: uint8(state.Verified), Balance: new(big.Int).Mul(big.NewInt(100), common.DnaBase)},
			},
			GodAddress:        addr,
			FirstCeremonyTime: 4070908800,
		},
		Validation: &config.ValidationConfig{},
		Blockchain: &config.BlockchainConfig{},
	}
	chain, appState := NewCustomTestBlockchainWithConfig(5, 0, key, cfg)
	defer chain.SecStore().Destroy()
	chain.GenerateBlocks(35, 0) // height 40

	// the other branch: nothing identity related happens
	other, _ := chain.Copy()
	other.GenerateBlocks(15, 0)

	// our branch: the identity goes online; the switch is applied by the identity-update block 50
	tx := BuildTx(appState, addr, nil, types.OnlineStatusTx, decimal.Zero, decimal.New(20, 0), decimal.Zero, 0, 0, attachments.CreateOnlineStatusAttachment(true))
	tx, _ = types.SignTx(tx, key)
	if err := chain.AddTx(tx); err != nil {
		t.Skip("tx refused: ", err)
	}
	chain.GenerateBlocks(12, 0) // height 52
	h := uint64(0)
	for i := uint64(41); i <= 52; i++ {
		if d := chain.GetIdentityDiff(i); d != nil && !d.Empty() {
			h = i
		}
	}
	if h == 0 {
		t.Skip("no identity diff on our branch")
	}
	if d := other.GetIdentityDiff(h); d != nil && !d.Empty() {
		t.Skip("the other branch also has a diff at that height")
	}

	// reorganisation: back to the common block, then the other branch's blocks
	if _, err := chain.ResetTo(40); err != nil {
		t.Skip("reset failed: ", err)
	}
	for i := uint64(41); i <= 55; i++ {
		b := other.GetBlockByHeight(i)
		if err := chain.AddBlock(b, nil, collector.NewStatsCollector()); err != nil {
			t.Skip("block of the other branch refused: ", err)
		}
	}
	if chain.GetBlockHeaderByHeight(h).Hash() != other.GetBlockHeaderByHeight(h).Hash() {
		t.Skip("not on the other branch")
	}
	if d := chain.GetIdentityDiff(h); d != nil && !d.Empty() {
		fmt.Printf("VERIF-REPLAY-VIOLATION: after the reorganisation the node still stores (and would serve) %d identity diff entries of the dropped block at height %d; the canonical block of that height has an empty identity diff (identity root %x)\n", len(d.Values), h, chain.GetBlockHeaderByHeight(h).IdentityRoot())
		t.Fail()
		return
	}
	fmt.Println("stored diff is the canonical block's diff")
}
`

// genForkAnswerGap: the heights in a fork answer are chosen by the peer; with one block left out
// (and the answer not longer than our chain) checkForkSize walks past the end of the answer.
func genForkAnswerGap(o *Obligation, P *Program) (string, string) {
	return "// Replay of obligation " + o.Name + "\n" + forkAnswerGapTest, "consensus"
}

const forkAnswerGapTest = `package consensus

import (
	"fmt"
	"testing"

	"github.com/idena-network/idena-go/blockchain"
	"github.com/idena-network/idena-go/blockchain/types"
	"github.com/idena-network/idena-go/crypto"
	"github.com/idena-network/idena-go/stats/collector"
)

// Replay: a peer answers the fork request with blocks whose heights are not contiguous (it simply
// leaves one out). The fork must be refused; the node must not crash.
func TestVerifReplay(t *testing.T) {
	key, _ := crypto.GenerateKey()
	chain, _ := blockchain.NewCustomTestBlockchain(30, 0, key)
	defer chain.SecStore().Destroy()
	peer, _ := chain.Copy()
	chain.GenerateBlocks(6, 1)
	peer.GenerateBlocks(4, 0)
	fork := peer.ReadBlockForForkedPeer(chain.GetTopBlockHashes(100))
	if len(fork) < 3 {
		t.Skip("no fork produced")
	}
	// the peer leaves the second block out: heights h, h+2, h+3 ... all below our head
	gap := append([]types.BlockBundle{fork[0]}, fork[2:]...)
	if gap[len(gap)-1].Block.Height() > chain.Head.Height() {
		t.Skip("fork is longer than our chain")
	}
	resolver := NewForkResolver([]ForkDetector{}, nil, chain.Blockchain, collector.NewStatsCollector())
	blocks := make(chan types.BlockBundle, len(gap))
	for _, b := range gap {
		blocks <- b
	}
	close(blocks)
	defer func() {
		if r := recover(); r != nil {
			fmt.Printf("VERIF-REPLAY-VIOLATION: a fork answer with heights %d, %d, ... (one block left out) crashes the node: %v\n", gap[0].Block.Height(), gap[1].Block.Height(), r)
			t.Fail()
		}
	}()
	err := resolver.processBlocks(blocks, "peer")
	fmt.Println("refused:", err)
}
`
