package main

import (
	"fmt"
	"go/types"
	"math/big"
	"sort"
	"strings"
)

type Sort string

const (
	SInt  Sort = "Int"
	SBool Sort = "Bool"
	SStr  Sort = "Str"
	SF32  Sort = "(_ FloatingPoint 8 24)"
	SF64  Sort = "(_ FloatingPoint 11 53)"
)

type Term struct {
	S    string
	Sort Sort
}

func (t Term) String() string { return t.S }

func arrSort(idx, elem Sort) Sort { return Sort("(Array " + string(idx) + " " + string(elem) + ")") }

func isArr(s Sort) bool { return strings.HasPrefix(string(s), "(Array ") }

// arrElem returns index and element sorts of an array sort.
func arrParts(s Sort) (Sort, Sort) {
	str := strings.TrimSuffix(strings.TrimPrefix(string(s), "(Array "), ")")
	// split at top-level space
	depth := 0
	quoted := false
	for i, r := range str {
		switch r {
		case '|':
			quoted = !quoted
		case '(':
			if !quoted {
				depth++
			}
		case ')':
			if !quoted {
				depth--
			}
		case ' ':
			if depth == 0 && !quoted {
				return Sort(str[:i]), Sort(str[i+1:])
			}
		}
	}
	return SInt, SInt
}

func tInt(n int64) Term {
	if n < 0 {
		return Term{fmt.Sprintf("(- %d)", -n), SInt}
	}
	return Term{fmt.Sprintf("%d", n), SInt}
}

func tBig(n *big.Int) Term {
	if n.Sign() < 0 {
		return Term{"(- " + new(big.Int).Neg(n).String() + ")", SInt}
	}
	return Term{n.String(), SInt}
}

var tTrue = Term{"true", SBool}
var tFalse = Term{"false", SBool}

func tBool(b bool) Term {
	if b {
		return tTrue
	}
	return tFalse
}

func app(sort Sort, f string, args ...Term) Term {
	var sb strings.Builder
	sb.WriteString("(")
	sb.WriteString(f)
	for _, a := range args {
		sb.WriteString(" ")
		sb.WriteString(a.S)
	}
	sb.WriteString(")")
	return Term{sb.String(), sort}
}

func tAnd(ts ...Term) Term {
	var xs []Term
	for _, t := range ts {
		if t.S == "true" {
			continue
		}
		if t.S == "false" {
			return tFalse
		}
		xs = append(xs, t)
	}
	if len(xs) == 0 {
		return tTrue
	}
	if len(xs) == 1 {
		return xs[0]
	}
	return app(SBool, "and", xs...)
}

func tOr(ts ...Term) Term {
	var xs []Term
	for _, t := range ts {
		if t.S == "false" {
			continue
		}
		if t.S == "true" {
			return tTrue
		}
		xs = append(xs, t)
	}
	if len(xs) == 0 {
		return tFalse
	}
	if len(xs) == 1 {
		return xs[0]
	}
	return app(SBool, "or", xs...)
}

func tNot(t Term) Term {
	if t.S == "true" {
		return tFalse
	}
	if t.S == "false" {
		return tTrue
	}
	return app(SBool, "not", t)
}

func tImp(a, b Term) Term {
	if a.S == "true" {
		return b
	}
	if a.S == "false" || b.S == "true" {
		return tTrue
	}
	return app(SBool, "=>", a, b)
}

func tEq(a, b Term) Term {
	if a.S == b.S {
		return tTrue
	}
	return app(SBool, "=", a, b)
}

func tIte(c, a, b Term) Term {
	if c.S == "true" {
		return a
	}
	if c.S == "false" {
		return b
	}
	if a.S == b.S {
		return a
	}
	return app(a.Sort, "ite", c, a, b)
}

func tSelect(arr, idx Term) Term {
	_, el := arrParts(arr.Sort)
	return app(el, "select", arr, idx)
}

func tStore(arr, idx, v Term) Term {
	return app(arr.Sort, "store", arr, idx, v)
}

func tAdd(a, b Term) Term { return app(SInt, "+", a, b) }
func tSub(a, b Term) Term { return app(SInt, "-", a, b) }
func tLe(a, b Term) Term  { return app(SBool, "<=", a, b) }
func tLt(a, b Term) Term  { return app(SBool, "<", a, b) }

func pow2(n uint) *big.Int { return new(big.Int).Lsh(big.NewInt(1), n) }

// intRange returns the inclusive range of a fixed-width integer type.
func intRange(b *types.Basic) (lo, hi *big.Int, ok bool) {
	var w uint
	signed := false
	switch b.Kind() {
	case types.Int8:
		w, signed = 8, true
	case types.Int16:
		w, signed = 16, true
	case types.Int32:
		w, signed = 32, true
	case types.Int64, types.Int:
		w, signed = 64, true
	case types.Uint8:
		w = 8
	case types.Uint16:
		w = 16
	case types.Uint32:
		w = 32
	case types.Uint64, types.Uint, types.Uintptr:
		w = 64
	default:
		return nil, nil, false
	}
	if signed {
		lo = new(big.Int).Neg(pow2(w - 1))
		hi = new(big.Int).Sub(pow2(w-1), big.NewInt(1))
	} else {
		lo = big.NewInt(0)
		hi = new(big.Int).Sub(pow2(w), big.NewInt(1))
	}
	return lo, hi, true
}

func intWidth(b *types.Basic) (w uint, signed bool) {
	switch b.Kind() {
	case types.Int8:
		return 8, true
	case types.Int16:
		return 16, true
	case types.Int32:
		return 32, true
	case types.Int64, types.Int:
		return 64, true
	case types.Uint8:
		return 8, false
	case types.Uint16:
		return 16, false
	case types.Uint32:
		return 32, false
	case types.Uint64, types.Uint, types.Uintptr:
		return 64, false
	}
	return 0, false
}

// wrapTerm wraps a mathematical integer into the range of b (Go's modular arithmetic).
func wrapTerm(t Term, b *types.Basic) Term {
	lo, hi, ok := intRange(b)
	if !ok {
		return t
	}
	w, signed := intWidth(b)
	m := tBig(pow2(w))
	inRange := tAnd(tLe(tBig(lo), t), tLe(t, tBig(hi)))
	var wrapped Term
	if signed {
		half := tBig(pow2(w - 1))
		wrapped = tSub(app(SInt, "mod", tAdd(t, half), m), half)
	} else {
		wrapped = app(SInt, "mod", t, m)
	}
	return tIte(inRange, t, wrapped)
}

func sanitize(s string) string {
	var sb strings.Builder
	for _, r := range s {
		switch {
		case r >= 'a' && r <= 'z', r >= 'A' && r <= 'Z', r >= '0' && r <= '9', r == '_', r == '.', r == '$':
			sb.WriteRune(r)
		case r == '/':
			sb.WriteString("_")
		case r == '*':
			sb.WriteString("p.")
		case r == '[':
			sb.WriteString("$L")
		case r == ']':
			sb.WriteString("$R")
		default:
			sb.WriteString("_")
		}
	}
	return sb.String()
}

func sortedKeys[V any](m map[string]V) []string {
	ks := make([]string, 0, len(m))
	for k := range m {
		ks = append(ks, k)
	}
	sort.Strings(ks)
	return ks
}

func isNumeral(t Term) bool {
	_, ok := constOf(t)
	if ok {
		return true
	}
	s := t.S
	if strings.HasPrefix(s, "(- ") && strings.HasSuffix(s, ")") {
		s = s[3 : len(s)-1]
	}
	if s == "" {
		return false
	}
	for _, r := range s {
		if r < '0' || r > '9' {
			return false
		}
	}
	return true
}

// tMul multiplies two integer terms. A product of two non-constant terms is an uninterpreted
// function with the sign/zero/unit laws as ground facts: enough for conservation arguments and it
// keeps every query inside linear arithmetic (no nonlinear solver involved).
func (e *Enc) tMul(a, b Term) Term {
	if isNumeral(a) || isNumeral(b) {
		return app(SInt, "*", a, b)
	}
	if strings.Contains(a.S, "|q.") || strings.Contains(b.S, "|q.") {
		return app(SInt, "*", a, b)
	}
	e.declFun("nlmul", []Sort{SInt, SInt}, SInt)
	r := e.define("mul", app(SInt, "nlmul", a, b))
	key := "nlmul:" + a.S + "*" + b.S
	if !e.declared[key] {
		e.declared[key] = true
		zero := tInt(0)
		e.fact(tImp(tOr(tEq(a, zero), tEq(b, zero)), tEq(r, zero)))
		e.fact(tImp(tAnd(tLe(zero, a), tLe(zero, b)), tLe(zero, r)))
		e.fact(tImp(tAnd(tLt(zero, a), tLt(zero, b)), tAnd(tLe(a, r), tLe(b, r))))
		e.fact(tImp(tEq(a, tInt(1)), tEq(r, b)))
		e.fact(tImp(tEq(b, tInt(1)), tEq(r, a)))
		e.fact(tEq(r, app(SInt, "nlmul", b, a)))
		// products with small constant factors are linear
		for _, k := range []int64{2, 3, 4, 5, 10, 100, 1000} {
			e.fact(tImp(tEq(a, tInt(k)), tEq(r, app(SInt, "*", tInt(k), b))))
			e.fact(tImp(tEq(b, tInt(k)), tEq(r, app(SInt, "*", tInt(k), a))))
		}
	}
	return r
}
