package main

// Evaluation of specification expressions to SMT terms in a given heap state.

import (
	"fmt"
	"go/constant"

	"golang.org/x/tools/go/ssa"
	"go/types"
	"math/big"
	"strconv"
	"strings"
)

var mathInt = types.Typ[types.UntypedInt]

// RefV denotes the struct (or other composite) of type T stored at Ref.
type RefV struct {
	Ref Term
	T   types.Type
}

type SpecCtx struct {
	e    *Enc
	f    *FnEnc
	vars map[string]binding
	st   *State
	inOld bool
	old  *State
	pkg  *types.Package
	// bound quantifier variables shadow locals
	bound    map[string]bool
	srcArgs  map[string]ssa.Value // call-site SSA arguments (for reach())
	atReturn bool
	gateTop, gateB *ssa.BasicBlock // evaluating a gate: calls inside its decision region are visible
	hdrBlock interface{}
}

func (c *SpecCtx) with(vars map[string]binding) *SpecCtx {
	n := *c
	n.vars = vars
	return &n
}

func (c *SpecCtx) fail(f string, a ...interface{}) {
	c.e.unsup("spec: "+f, a...)
}

func (c *SpecCtx) evalBool(x Expr) Term {
	v, _ := c.eval(x)
	t, ok := v.(Term)
	if !ok || t.Sort != SBool {
		c.fail("boolean expected, got %v", v)
	}
	return t
}

func (c *SpecCtx) toInt(v Val) Term {
	t, ok := v.(Term)
	if !ok || t.Sort != SInt {
		c.fail("integer expected, got %v", v)
	}
	return t
}

func (c *SpecCtx) findPkg(name string) *types.Package {
	if c.pkg != nil {
		if c.pkg.Name() == name {
			return c.pkg
		}
		for _, imp := range c.pkg.Imports() {
			if imp.Name() == name {
				return imp
			}
		}
	}
	// fall back: any loaded package of that name (prefer the repo)
	var found *types.Package
	for path, p := range c.e.P.ByPath {
		if p.Types != nil && p.Types.Name() == name {
			if strings.HasPrefix(path, modPath) {
				return p.Types
			}
			if found == nil {
				found = p.Types
			}
		}
	}
	return found
}

func (c *SpecCtx) resolveType(s string) types.Type {
	s = strings.TrimSpace(s)
	switch {
	case s == "int" || s == "Int":
		return mathInt
	case s == "interface{}" || s == "any":
		return types.NewInterfaceType(nil, nil)
	case strings.HasPrefix(s, "*"):
		return types.NewPointer(c.resolveType(s[1:]))
	case strings.HasPrefix(s, "[]"):
		return types.NewSlice(c.resolveType(s[2:]))
	}
	if o := types.Universe.Lookup(s); o != nil {
		if tn, ok := o.(*types.TypeName); ok {
			return tn.Type()
		}
	}
	if i := strings.LastIndex(s, "."); i > 0 {
		pn, tn := s[:i], s[i+1:]
		var p *types.Package
		if strings.Contains(pn, "/") {
			if lp := c.e.P.ByPath[pn]; lp != nil {
				p = lp.Types
			}
		} else {
			p = c.findPkg(pn)
		}
		if p != nil {
			if o := p.Scope().Lookup(tn); o != nil {
				return o.Type()
			}
		}
		c.fail("unknown type %s", s)
	}
	if c.pkg != nil {
		if o := c.pkg.Scope().Lookup(s); o != nil {
			if _, ok := o.(*types.TypeName); ok {
				return o.Type()
			}
		}
	}
	c.fail("unknown type %s", s)
	return nil
}

func (c *SpecCtx) constObj(o types.Object) (Val, types.Type, bool) {
	k, ok := o.(*types.Const)
	if !ok {
		return nil, nil, false
	}
	switch k.Val().Kind() {
	case constant.Int:
		if i, ok := constant.Val(k.Val()).(*big.Int); ok {
			return tBig(i), mathInt, true
		}
		if i, ok := constant.Val(k.Val()).(int64); ok {
			return tInt(i), mathInt, true
		}
	case constant.Bool:
		return tBool(constant.BoolVal(k.Val())), types.Typ[types.Bool], true
	case constant.String:
		return c.e.strLit(constant.StringVal(k.Val())), types.Typ[types.String], true
	case constant.Float:
		f, _ := constant.Float64Val(k.Val())
		if b := basicOf(k.Type()); b != nil && b.Kind() == types.Float32 {
			return f32Lit(float32(f)), k.Type(), true
		}
		return f64Lit(f), types.Typ[types.Float64], true
	}
	return nil, nil, false
}

// eval returns the value of a specification expression and its Go type
// (mathInt for mathematical integers).
func (c *SpecCtx) eval(x Expr) (Val, types.Type) {
	e := c.e
	switch x := x.(type) {
	case *ENum:
		n, ok := new(big.Int).SetString(x.V, 0)
		if !ok {
			c.fail("bad number %s", x.V)
		}
		return tBig(n), mathInt
	case *EFloat:
		f, _ := strconv.ParseFloat(x.V, 64)
		return f64Lit(f), types.Typ[types.UntypedFloat]
	case *EStr:
		return e.strLit(x.V), types.Typ[types.String]
	case *EIdent:
		switch x.Name {
		case "nil":
			return tInt(0), types.Typ[types.UntypedNil]
		case "true":
			return tTrue, types.Typ[types.Bool]
		case "false":
			return tFalse, types.Typ[types.Bool]
		}
		if c.atReturn {
			// in postconditions parameters denote their entry values
			if b, ok := c.vars[x.Name]; ok {
				return b.v, b.t
			}
		}
		if c.inOld {
			// old(v) of a captured variable: what the variable held on entry (read through its cell)
			if b, ok := c.vars["&"+x.Name]; ok {
				t := derefType(b.t)
				return c.load(b.v.(Term), t), t
			}
		}
		if c.f != nil && c.hdrBlock != nil {
			if _, bound := c.bound[x.Name]; !bound {
				if v, t, ok := c.f.resolveLocal(x.Name, c); ok {
					return v, t
				}
			}
		}
		if b, ok := c.vars[x.Name]; ok {
			return b.v, b.t
		}
		if b, ok := c.vars["&"+x.Name]; ok {
			// captured variable: load through the pointer
			t := derefType(b.t)
			return c.load(b.v.(Term), t), t
		}
		if g, ok := e.DB.Ghosts[x.Name]; ok {
			cp := e.ghostComp(g, c.pkg)
			return e.lookup(c.st, cp), mathInt
		}
		if s, ok := e.DB.Consts[x.Name]; ok {
			ex, err := parseExpr(s)
			if err != nil {
				c.fail("const %s: %v", x.Name, err)
			}
			return c.eval(ex)
		}
		if c.pkg != nil {
			if o := c.pkg.Scope().Lookup(x.Name); o != nil {
				if v, t, ok := c.constObj(o); ok {
					return v, t
				}
				if gv, ok := o.(*types.Var); ok {
					return c.globalVar(gv)
				}
			}
		}
		if c.f != nil && c.hdrBlock != nil {
			// a local that has no dominating definition here (e.g. an early return before its
			// declaration): it denotes an arbitrary value
			if t := c.f.localType(x.Name); t != nil {
				return e.freshVal(t, "undef."+x.Name, c.st.Alloc), t
			}
		}
		c.fail("unknown identifier %s", x.Name)
	case *EBin:
		return c.evalBin(x)
	case *EUn:
		switch x.Op {
		case "!":
			return tNot(c.evalBool(x.X)), types.Typ[types.Bool]
		case "-":
			v, _ := c.eval(x.X)
			return app(SInt, "-", c.toInt(v)), mathInt
		case "*":
			v, t := c.eval(x.X)
			if rv, ok := v.(RefV); ok {
				return rv, t
			}
			et := derefType(t)
			if et == nil {
				c.fail("dereference of non-pointer")
			}
			return c.load(v.(Term), et), et
		}
		c.fail("unary %s", x.Op)
	case *ESel:
		// package-qualified constant or variable?
		if id, ok := x.X.(*EIdent); ok {
			if _, isVar := c.vars[id.Name]; !isVar {
				if _, isCap := c.vars["&"+id.Name]; !isCap {
					if p := c.findPkg(id.Name); p != nil && (c.f == nil || c.hdrBlock == nil || !c.f.hasLocal(id.Name)) {
						if o := p.Scope().Lookup(x.Name); o != nil {
							if v, t, ok := c.constObj(o); ok {
								return v, t
							}
							if gv, ok := o.(*types.Var); ok {
								return c.globalVar(gv)
							}
						}
					}
				}
			}
		}
		v, t := c.eval(x.X)
		return c.selectField(v, t, x.Name)
	case *EIdx:
		v, t := c.eval(x.X)
		iv, _ := c.eval(x.I)
		switch u := t.Underlying().(type) {
		case *types.Slice:
			sv := v.(SliceV)
			ref := e.elemRef(sv, c.toInt(iv))
			return c.load(ref, u.Elem()), u.Elem()
		case *types.Map:
			val, has := c.mapLoad(u, v.(Term), iv.(Term))
			return e.valIte(has, val, e.zeroVal(u.Elem())), u.Elem()
		case *types.Array:
			es, ok := e.scalarSort(u.Elem())
			if !ok {
				c.fail("array of composite")
			}
			fn := "|idx " + typeKey(u) + "|"
			e.declFun(fn, []Sort{v.(Term).Sort, SInt}, es)
			return app(es, fn, v.(Term), c.toInt(iv)), u.Elem()
		case *types.Basic:
			e.declFun("stridx", []Sort{SStr, SInt}, SInt)
			return app(SInt, "stridx", v.(Term), c.toInt(iv)), types.Typ[types.Uint8]
		}
		c.fail("index of %s", t)
	case *ECall:
		return c.evalCall(x)
	case *EQuant:
		return c.evalQuant(x), types.Typ[types.Bool]
	}
	c.fail("cannot evaluate %T", x)
	return nil, nil
}

func (c *SpecCtx) globalVar(gv *types.Var) (Val, types.Type) {
	sp := c.e.P.SSA.Package(gv.Pkg())
	if sp == nil {
		c.fail("global %s: package not built", gv.Name())
	}
	g, ok := sp.Members[gv.Name()].(interface{ String() string })
	_ = g
	if !ok {
		c.fail("global %s not found", gv.Name())
	}
	sg := sp.Var(gv.Name())
	if sg == nil {
		c.fail("global %s not found", gv.Name())
	}
	ref := c.e.globalRef(sg)
	return c.load(ref, gv.Type()), gv.Type()
}

// load reads a value of type t at ref; struct types yield a RefV (lazy).
func (c *SpecCtx) load(ref Term, t types.Type) Val {
	if c.e.isStructT(t) && !c.e.isBigInt(t) {
		return RefV{ref, t}
	}
	if c.e.isBigInt(t) {
		return RefV{ref, t}
	}
	return c.e.loadAt(c.st, ref, t)
}

func (c *SpecCtx) mapLoad(mt *types.Map, m, k Term) (Val, Term) {
	e := c.e
	var ts []Term
	for _, l := range e.leaves(mt.Elem()) {
		cp := e.mapValComp(mt, l)
		ts = append(ts, tSelect(tSelect(e.lookup(c.st, cp), m), k))
	}
	val, _ := e.unflatten(mt.Elem(), ts)
	has := tAnd(tNot(tEq(m, tInt(0))), tSelect(tSelect(e.lookup(c.st, e.mapHasComp(mt)), m), k))
	return val, has
}

func findField(t types.Type, name string) (types.Type, int, bool) {
	st := structOf(t)
	if st == nil {
		return nil, 0, false
	}
	for i := 0; i < st.NumFields(); i++ {
		if st.Field(i).Name() == name {
			return st.Field(i).Type(), i, true
		}
	}
	return nil, 0, false
}

func (c *SpecCtx) selectField(v Val, t types.Type, name string) (Val, types.Type) {
	e := c.e
	// auto-dereference pointers
	var ref Term
	var S types.Type
	switch vv := v.(type) {
	case RefV:
		ref, S = vv.Ref, vv.T
	case Term:
		et := derefType(t)
		if et == nil {
			c.fail("selector .%s on non-struct %s", name, t)
		}
		ref, S = vv, et
	case StructV:
		ft, i, ok := findField(t, name)
		if !ok {
			c.fail("no field %s in %s", name, t)
		}
		return vv.Fields[i], ft
	default:
		c.fail("selector .%s on %T", name, v)
	}
	ft, i, ok := findField(S, name)
	if !ok {
		// promoted field through embedded structs
		st := structOf(S)
		if st != nil {
			for k := 0; k < st.NumFields(); k++ {
				if st.Field(k).Embedded() {
					et := st.Field(k).Type()
					inner, it := c.selectField(RefV{ref, S}, S, st.Field(k).Name())
					if _, _, ok := findField(derefOrSelf(et), name); ok {
						return c.selectField(inner, it, name)
					}
				}
			}
		}
		c.fail("no field %s in %s", name, S)
	}
	if e.isStructT(ft) {
		return RefV{e.subRef(S, i, ref), ft}, ft
	}
	return e.loadField(c.st, ref, S, i), ft
}

func derefOrSelf(t types.Type) types.Type {
	if d := derefType(t); d != nil {
		return d
	}
	return t
}

func isMath(t types.Type) bool { return t == mathInt }

func (c *SpecCtx) evalBin(x *EBin) (Val, types.Type) {
	e := c.e
	boolT := types.Typ[types.Bool]
	switch x.Op {
	case "&&":
		return tAnd(c.evalBool(x.L), c.evalBool(x.R)), boolT
	case "||":
		return tOr(c.evalBool(x.L), c.evalBool(x.R)), boolT
	case "==>":
		return tImp(c.evalBool(x.L), c.evalBool(x.R)), boolT
	case "<==>":
		return tEq(c.evalBool(x.L), c.evalBool(x.R)), boolT
	}
	l, lt := c.eval(x.L)
	r, rt := c.eval(x.R)
	// float literal adaptation
	if lT, ok := l.(Term); ok {
		if rT, ok := r.(Term); ok {
			if lT.Sort == SF32 && rT.Sort == SF64 {
				if fl, ok := x.R.(*EFloat); ok {
					f, _ := strconv.ParseFloat(fl.V, 64)
					r = f32Lit(float32(f))
				}
			}
			if rT.Sort == SF32 && lT.Sort == SF64 {
				if fl, ok := x.L.(*EFloat); ok {
					f, _ := strconv.ParseFloat(fl.V, 64)
					l = f32Lit(float32(f))
				}
			}
			if (lT.Sort == SF32 || lT.Sort == SF64) && rT.Sort == SInt {
				if n, ok := x.R.(*ENum); ok {
					f, _ := strconv.ParseFloat(n.V, 64)
					if lT.Sort == SF32 {
						r = f32Lit(float32(f))
					} else {
						r = f64Lit(f)
					}
				}
			}
		}
	}
	switch x.Op {
	case "==", "!=":
		var eq Term
		if rv, ok := l.(RefV); ok {
			l = rv.Ref
		}
		if rv, ok := r.(RefV); ok {
			r = rv.Ref
		}
		if sl, ok := l.(SliceV); ok {
			if isNilExpr(x.R) {
				eq = tEq(sl.Base, tInt(0))
			} else {
				eq = e.valEq(l, r)
			}
		} else if sr, ok := r.(SliceV); ok && isNilExpr(x.L) {
			eq = tEq(sr.Base, tInt(0))
		} else if lT, ok := l.(Term); ok && (lT.Sort == SF32 || lT.Sort == SF64) {
			eq = app(SBool, "fp.eq", lT, r.(Term))
		} else {
			eq = e.valEq(l, r)
		}
		if x.Op == "!=" {
			return tNot(eq), boolT
		}
		return eq, boolT
	}
	a, aok := l.(Term)
	b, bok := r.(Term)
	if !aok || !bok {
		c.fail("operator %s on composite values", x.Op)
	}
	if a.Sort == SF32 || a.Sort == SF64 {
		switch x.Op {
		case "<":
			return app(SBool, "fp.lt", a, b), boolT
		case "<=":
			return app(SBool, "fp.leq", a, b), boolT
		case ">":
			return app(SBool, "fp.gt", a, b), boolT
		case ">=":
			return app(SBool, "fp.geq", a, b), boolT
		case "+":
			return app(a.Sort, "fp.add RNE", a, b), lt
		case "-":
			return app(a.Sort, "fp.sub RNE", a, b), lt
		case "*":
			return app(a.Sort, "fp.mul RNE", a, b), lt
		case "/":
			return app(a.Sort, "fp.div RNE", a, b), lt
		}
		c.fail("float operator %s", x.Op)
	}
	_ = lt
	_ = rt
	switch x.Op {
	case "<":
		return tLt(a, b), boolT
	case "<=":
		return tLe(a, b), boolT
	case ">":
		return tLt(b, a), boolT
	case ">=":
		return tLe(b, a), boolT
	case "+":
		return tAdd(a, b), mathInt
	case "-":
		return tSub(a, b), mathInt
	case "*":
		return e.tMul(a, b), mathInt
	case "/":
		return app(SInt, "div", a, b), mathInt
	case "%":
		return app(SInt, "mod", a, b), mathInt
	case "&":
		if cst, ok := constOf(b); ok {
			if r, ok := andConst(a, cst, true); ok {
				return r, mathInt
			}
		}
	}
	c.fail("operator %s", x.Op)
	return nil, nil
}

func isNilExpr(x Expr) bool {
	id, ok := x.(*EIdent)
	return ok && id.Name == "nil"
}

func (c *SpecCtx) evalCall(x *ECall) (Val, types.Type) {
	e := c.e
	boolT := types.Typ[types.Bool]
	if x.Recv != nil {
		// pkg.specfunc(...) → same as specfunc(...)
		if id, ok := x.Recv.(*EIdent); ok {
			if _, isVar := c.vars[id.Name]; !isVar {
				return c.evalCall(&ECall{Fun: x.Fun, Args: x.Args})
			}
		}
		c.fail("method calls are not allowed in specifications (%s)", x.Fun)
	}
	switch x.Fun {
	case "old":
		oc := *c
		oc.st = c.old
		oc.inOld = true
		return oc.eval(x.Args[0])
	case "val":
		v, _ := c.eval(x.Args[0])
		var ref Term
		switch vv := v.(type) {
		case RefV:
			ref = vv.Ref
		case Term:
			ref = vv
		default:
			c.fail("val of %T", v)
		}
		return tSelect(e.lookup(c.st, e.bigvalComp()), ref), mathInt
	case "len", "cap":
		v, t := c.eval(x.Args[0])
		switch vv := v.(type) {
		case SliceV:
			if x.Fun == "len" {
				return vv.Len, mathInt
			}
			return vv.Cap, mathInt
		case Term:
			if vv.Sort == SStr {
				return app(SInt, "strlen", vv), mathInt
			}
			if mt, ok := t.Underlying().(*types.Map); ok {
				return tIte(tEq(vv, tInt(0)), tInt(0), tSelect(e.lookup(c.st, e.mapLenComp(mt)), vv)), mathInt
			}
			if at, ok := t.Underlying().(*types.Array); ok {
				return tInt(at.Len()), mathInt
			}
		}
		c.fail("len of %s", t)
	case "has":
		m, t := c.eval(x.Args[0])
		k, _ := c.eval(x.Args[1])
		mt, ok := t.Underlying().(*types.Map)
		if !ok {
			c.fail("has on non-map")
		}
		_, has := c.mapLoad(mt, m.(Term), k.(Term))
		return has, boolT
	case "ite":
		cond := c.evalBool(x.Args[0])
		a, at := c.eval(x.Args[1])
		b, _ := c.eval(x.Args[2])
		return e.valIte(cond, a, b), at
	case "nonnil":
		var cs []Term
		for _, a := range x.Args {
			v, _ := c.eval(a)
			switch vv := v.(type) {
			case Term:
				cs = append(cs, tNot(tEq(vv, tInt(0))))
			case RefV:
				cs = append(cs, tNot(tEq(vv.Ref, tInt(0))))
			case SliceV:
				cs = append(cs, tNot(tEq(vv.Base, tInt(0))))
			default:
				c.fail("nonnil of %T", v)
			}
		}
		return tAnd(cs...), boolT
	case "fresh":
		v, _ := c.eval(x.Args[0])
		var ref Term
		switch vv := v.(type) {
		case Term:
			ref = vv
		case RefV:
			ref = vv.Ref
		case SliceV:
			ref = vv.Base
		}
		return tAnd(tLe(c.old.Alloc, ref), tLt(ref, c.st.Alloc)), boolT
	case "allocated":
		v, _ := c.eval(x.Args[0])
		return tLt(app(SInt, "rootof", v.(Term)), c.st.Alloc), boolT
	case "abs":
		v, _ := c.eval(x.Args[0])
		t := c.toInt(v)
		return tIte(tLe(tInt(0), t), t, app(SInt, "-", t)), mathInt
	case "min", "max":
		a, _ := c.eval(x.Args[0])
		b, _ := c.eval(x.Args[1])
		if x.Fun == "min" {
			return tIte(tLe(c.toInt(a), c.toInt(b)), a.(Term), b.(Term)), mathInt
		}
		return tIte(tLe(c.toInt(a), c.toInt(b)), b.(Term), a.(Term)), mathInt
	case "int", "uint64", "int64", "uint32", "uint8", "uint16", "int32":
		v, _ := c.eval(x.Args[0])
		return v, mathInt
	case "str":
		// string content of a byte slice in the current heap
		v, t := c.eval(x.Args[0])
		sv, ok := v.(SliceV)
		if !ok {
			c.fail("str of non-slice")
		}
		sl := t.Underlying().(*types.Slice)
		es, _ := e.scalarSort(sl.Elem())
		cp := e.cellComp(sl.Elem(), leaf{"", es, sl.Elem()})
		fn := "|str-of " + typeKey(sl.Elem()) + "|"
		e.declFun(fn, []Sort{cp.Sort, SInt, SInt, SInt}, SStr)
		return app(SStr, fn, e.lookup(c.st, cp), sv.Base, sv.Off, sv.Len), types.Typ[types.String]
	case "lastarg":
		// lastarg("callee[#k]", i): the i-th argument passed at the most recent call of callee
		if c.f == nil {
			c.fail("lastarg outside a function body")
		}
		key, ok := x.Args[0].(*EStr)
		n, ok2 := x.Args[1].(*ENum)
		if !ok || !ok2 {
			c.fail("lastarg(\"callee\", i)")
		}
		idx := 0
		fmt.Sscanf(n.V, "%d", &idx)
		lc, ok := c.f.lastRes[key.V]
		at := c.f.blk
		if hb, ok := c.hdrBlock.(*ssa.BasicBlock); ok && hb != nil {
			at = hb
		}
		inGate := ok && c.gateTop != nil && lc.blk != nil && c.gateTop.Dominates(lc.blk) && cfgReaches(lc.blk, c.gateB)
		if !ok || (at != nil && lc.blk != nil && !lc.blk.Dominates(at) && !inGate) {
			// the call did not (necessarily) happen on the way here: its argument is arbitrary
			var at types.Type
			for _, b := range c.f.fn.Blocks {
				for _, ins := range b.Instrs {
					if call, ok := ins.(*ssa.Call); ok && calleeKey(&call.Call) == strings.SplitN(key.V, "#", 2)[0] && idx < len(call.Call.Args) {
						at = call.Call.Args[idx].Type()
					}
				}
			}
			if at == nil {
				c.fail("lastarg: no call site of %s in this function", key.V)
			}
			arb := e.freshVal(at, "nocall.arg", c.st.Alloc)
			// ... unless this execution did pass through the call (it sits on some, not all, ways
			// here): then it is the argument passed there
			var here *ssa.BasicBlock = c.f.blk
			if hb, ok := c.hdrBlock.(*ssa.BasicBlock); ok && hb != nil {
				here = hb
			}
			if ok && lc.blk != nil && here != nil && cfgReaches(lc.blk, here) && lc.blk != here && idx < len(lc.args) && lc.args[idx] != nil {
				if passed, okr := c.f.outReach[lc.blk.Index]; okr {
					if rt, isT := lc.args[idx].(Term); isT {
						if at2, isT2 := arb.(Term); isT2 && at2.Sort == rt.Sort {
							return tIte(passed, rt, at2), at
						}
					}
				}
			}
			return arb, at
		}
		if idx >= len(lc.args) || lc.args[idx] == nil {
			c.fail("lastarg: %s has no usable argument %d", key.V, idx)
		}
		return lc.args[idx], lc.argT[idx]
	case "bytesarr":
		// bytesarr(a): the content of a byte-array value as a string (what a[:] reads as)
		v, _ := c.eval(x.Args[0])
		tv, ok := v.(Term)
		if !ok || !strings.HasPrefix(string(tv.Sort), "|Arr ") {
			c.fail("bytesarr of a non-array value")
		}
		return e.arrStr(tv), types.Typ[types.String]
	case "same":
		// same(a, b): identical values (for floats: bitwise-identical up to NaN payload, unlike ==)
		a, _ := c.eval(x.Args[0])
		b, _ := c.eval(x.Args[1])
		at, ok1 := a.(Term)
		bt, ok2 := b.(Term)
		if !ok1 || !ok2 || at.Sort != bt.Sort {
			c.fail("same() of composite or differently typed values")
		}
		return tEq(at, bt), boolT
	case "tofloat":
		// tofloat(x): the Go conversion float64(x) of an integer
		v, _ := c.eval(x.Args[0])
		tv, ok := v.(Term)
		if !ok || tv.Sort != SInt {
			c.fail("tofloat of a non-integer")
		}
		return Term{fmt.Sprintf("((_ to_fp 11 53) RNE (to_real %s))", tv.S), SF64}, types.Typ[types.Float64]
	case "lastresult", "laststr":
		// the value most recently returned by the named callee on the way here
		if c.f == nil {
			c.fail("%s outside a function body", x.Fun)
		}
		key, ok := x.Args[0].(*EStr)
		if !ok {
			c.fail("%s(\"callee\"[, i])", x.Fun)
		}
		lc, ok := c.f.lastRes[key.V]
		at := c.f.blk
		if hb, ok := c.hdrBlock.(*ssa.BasicBlock); ok && hb != nil {
			at = hb
		}
		inGate := ok && c.gateTop != nil && lc.blk != nil && c.gateTop.Dominates(lc.blk) && cfgReaches(lc.blk, c.gateB)
		if !ok || (at != nil && lc.blk != nil && !lc.blk.Dominates(at) && !inGate) {
			// the call did not (necessarily) happen on the way here: its value is arbitrary
			sig := c.f.calleeSig(strings.SplitN(key.V, "#", 2)[0])
			if sig == nil {
				c.fail("%s: no call site of %s in this function", x.Fun, key.V)
			}
			arb := c.f.resultVal(sig, "nocall")
			// ... unless this execution did pass through the call (short-circuit conditions: the
			// call sits on some, not all, ways here): then it is the call's value
			if ok && lc.blk != nil && at != nil && cfgReaches(lc.blk, at) && lc.blk != at {
				if passed, okr := c.f.outReach[lc.blk.Index]; okr {
					if rt, isT := lc.res.(Term); isT {
						if at2, isT2 := arb.(Term); isT2 && at2.Sort == rt.Sort {
							arb = tIte(passed, rt, at2)
						}
					}
				}
			}
			if x.Fun == "laststr" {
				fresh := e.freshConst("nocall.str", SStr)
				if ok && lc.blk != nil && at != nil && cfgReaches(lc.blk, at) && lc.blk != at {
					if passed, okr := c.f.outReach[lc.blk.Index]; okr {
						idx := 0
						if len(x.Args) > 1 {
							if n, okn := x.Args[1].(*ENum); okn {
								fmt.Sscanf(n.V, "%d", &idx)
							}
						}
						if idx < len(lc.str) && lc.str[idx].S != "" {
							return tIte(passed, lc.str[idx], fresh), types.Typ[types.String]
						}
					}
				}
				return fresh, types.Typ[types.String]
			}
			lc = lastCall{sig: sig, res: arb}
		}
		idx := 0
		if len(x.Args) > 1 {
			n, ok := x.Args[1].(*ENum)
			if !ok {
				c.fail("%s index must be a literal", x.Fun)
			}
			fmt.Sscanf(n.V, "%d", &idx)
		}
		rs := lc.sig.Results()
		if idx >= rs.Len() {
			c.fail("%s has %d results", key.V, rs.Len())
		}
		if x.Fun == "laststr" {
			if idx >= len(lc.str) || lc.str[idx].S == "" {
				c.fail("result %d of %s is not a byte slice", idx, key.V)
			}
			return lc.str[idx], types.Typ[types.String]
		}
		if tv, ok := lc.res.(TupleV); ok {
			return tv[idx], rs.At(idx).Type()
		}
		return lc.res, rs.At(0).Type()
	case "wrap":
		// wrap(x, "int"): x reduced into the range of the named Go integer type (Go's modular arithmetic)
		v, _ := c.eval(x.Args[0])
		id, ok := x.Args[1].(*EStr)
		tv, ok2 := v.(Term)
		if !ok || !ok2 || tv.Sort != SInt {
			c.fail("wrap(x, \"inttype\")")
		}
		t := c.resolveType(id.V)
		b, ok := t.Underlying().(*types.Basic)
		if !ok {
			c.fail("wrap: not an integer type")
		}
		return wrapTerm(tv, b), t
	case "nowaitsince":
		// nowaitsince("read", "wait"): the most recent call of "read" on the way here comes AFTER the
		// most recent call of "wait" (or there is no call of "wait" at all) - what was read is not
		// older than the last wait. Decided on the order of the call sites in the function.
		if c.f == nil || len(x.Args) != 2 {
			c.fail("nowaitsince(\"read\", \"wait\")")
		}
		a, ok1 := x.Args[0].(*EStr)
		b, ok2 := x.Args[1].(*EStr)
		if !ok1 || !ok2 {
			c.fail("nowaitsince(\"read\", \"wait\")")
		}
		ra, okA := c.f.lastRes[a.V]
		if !okA {
			return tFalse, boolT
		}
		rb, okB := c.f.lastRes[b.V]
		if !okB || rb.seq < ra.seq {
			return tTrue, boolT
		}
		return tFalse, boolT
	case "cur":
		// cur(x): the current value of source variable x at this program point (in check-at clauses
		// and postconditions a parameter name alone denotes its entry value)
		id, ok := x.Args[0].(*EIdent)
		if !ok || len(x.Args) != 1 {
			c.fail("cur(name)")
		}
		if c.f != nil && c.hdrBlock != nil {
			if v, t, ok := c.f.resolveLocal(id.Name, c); ok {
				return v, t
			}
		}
		return c.eval(id)
	case "toint":
		// toint(x): the Go conversion int(x) of a float value (same function the code's conversion uses)
		v, t := c.eval(x.Args[0])
		tv, ok := v.(Term)
		if !ok || (tv.Sort != SF64 && tv.Sort != SF32) {
			c.fail("toint of a non-float")
		}
		from := types.Type(types.Typ[types.Float64])
		if tv.Sort == SF32 {
			from = types.Typ[types.Float32]
		}
		_ = t
		fn := "|f2i " + typeKey(from) + " " + typeKey(types.Typ[types.Int]) + "|"
		e.declFun(fn, []Sort{tv.Sort}, SInt)
		return app(SInt, fn, tv), mathInt
	case "zero":
		// zero("T"): the zero value of type T
		id, ok := x.Args[0].(*EStr)
		if !ok {
			c.fail("zero(\"type\")")
		}
		t := c.resolveType(id.V)
		return e.zeroVal(t), t
	case "ifacestr":
		// the interface value holding string s (as produced by converting a string to interface{})
		v, _ := c.eval(x.Args[0])
		t := types.Typ[types.String]
		box := "|box " + typeKey(t) + "|"
		unbox := "|unbox " + typeKey(t) + "|"
		e.declFun(box, []Sort{SStr}, SInt)
		e.declFun(unbox, []Sort{SInt}, SStr)
		if !e.declared["boxstr-inj"] {
			e.declared["boxstr-inj"] = true
			e.fact(Term{fmt.Sprintf("(forall ((s Str)) (! (= (%s (%s s)) s) :pattern ((%s s))))", unbox, box, box), SBool})
		}
		return app(SInt, "mkiface", e.typeTag(t), app(SInt, box, v.(Term))), types.NewInterfaceType(nil, nil)
	case "dyntype":
		v, _ := c.eval(x.Args[0])
		return app(SInt, "dyntype", v.(Term)), mathInt
	case "typeis":
		v, _ := c.eval(x.Args[0])
		id, ok := x.Args[1].(*EStr)
		if !ok {
			c.fail("typeis(x, \"type\")")
		}
		t := c.resolveType(id.V)
		return tAnd(tNot(tEq(v.(Term), tInt(0))), tEq(app(SInt, "dyntype", v.(Term)), e.typeTag(t))), boolT
	case "as":
		// as(x, "*T"): the pointer held by interface value x, viewed as *T (use with typeis)
		v, _ := c.eval(x.Args[0])
		id, ok := x.Args[1].(*EStr)
		if !ok {
			c.fail("as(x, \"type\")")
		}
		t := c.resolveType(id.V)
		return app(SInt, "ifacepl", v.(Term)), t
	case "ptrof":
		// payload pointer of an interface value
		v, _ := c.eval(x.Args[0])
		return app(SInt, "ifacepl", v.(Term)), types.Typ[types.UnsafePointer]
	case "ref":
		v, _ := c.eval(x.Args[0])
		switch vv := v.(type) {
		case RefV:
			return vv.Ref, mathInt
		case Term:
			return vv, mathInt
		case SliceV:
			return vv.Base, mathInt
		}
	case "elem":
		// elem(s, i): reference of the i-th element
		v, _ := c.eval(x.Args[0])
		iv, _ := c.eval(x.Args[1])
		return e.elemRef(v.(SliceV), c.toInt(iv)), mathInt
	}
	if g, ok := e.DB.GhostFns[x.Fun]; ok {
		cp, pts, rt := e.ghostFnComp(g, c)
		if len(x.Args) != len(pts) {
			c.fail("ghost function %s expects %d arguments", g.Name, len(pts))
		}
		return nestedSelect(e.lookup(c.st, cp), c.ghostArgs(x.Args)), rt
	}
	sf, ok := e.DB.Specs[x.Fun]
	if !ok {
		c.fail("unknown specification function %s", x.Fun)
	}
	if len(x.Args) != len(sf.Params) {
		c.fail("%s expects %d arguments", sf.Name, len(sf.Params))
	}
	var spkg *types.Package
	if sf.PkgPath != "" && e.P.ByPath[sf.PkgPath] != nil {
		spkg = e.P.ByPath[sf.PkgPath].Types
	}
	tc := &SpecCtx{e: e, pkg: spkg}
	var rt types.Type
	if sf.Result == "bool" {
		rt = boolT
	} else {
		rt = tc.resolveType(sf.Result)
	}
	vars := map[string]binding{}
	var argTerms []Term
	var argSorts []Sort
	for i, a := range x.Args {
		v, t := c.eval(a)
		pt := tc.resolveType(sf.Params[i].Type)
		if rv, ok := v.(RefV); ok && derefType(pt) != nil {
			v = rv.Ref
		}
		_ = t
		vars[sf.Params[i].Name] = binding{v, pt}
		if sf.Body == nil {
			tv, ok := v.(Term)
			if !ok {
				c.fail("uninterpreted %s: composite argument", sf.Name)
			}
			argTerms = append(argTerms, tv)
			argSorts = append(argSorts, tv.Sort)
		}
	}
	if sf.Body != nil {
		e.specDepth++
		if e.specDepth > 30 {
			c.fail("specification function recursion (%s)", sf.Name)
		}
		defer func() { e.specDepth-- }()
		bc := &SpecCtx{e: e, f: nil, vars: vars, st: c.st, old: c.old, pkg: spkg}
		v, _ := bc.eval(sf.Body)
		return v, rt
	}
	rs, ok := e.scalarSort(rt)
	if rt == mathInt {
		rs, ok = SInt, true
	}
	if !ok {
		c.fail("uninterpreted %s: composite result", sf.Name)
	}
	name := "|spec " + sf.Name + "|"
	e.declFun(name, argSorts, rs)
	r := app(rs, name, argTerms...)
	if len(argTerms) == 0 {
		r = Term{name, rs}
	}
	return r, rt
}

func (c *SpecCtx) evalQuant(q *EQuant) Term {
	e := c.e
	vars := map[string]binding{}
	for k, v := range c.vars {
		vars[k] = v
	}
	var decls []string
	var guards []Term
	for _, qv := range q.Vars {
		t := c.resolveType(qv.Type)
		var s Sort
		if t == mathInt {
			s = SInt
		} else {
			var ok bool
			s, ok = e.scalarSort(t)
			if !ok {
				c.fail("quantified variable of composite type %s", qv.Type)
			}
		}
		e.ctr++
		name := fmt.Sprintf("|q.%s#%d|", qv.Name, e.ctr)
		decls = append(decls, fmt.Sprintf("(%s %s)", name, s))
		bt := Term{name, s}
		vars[qv.Name] = binding{bt, t}
		if t != mathInt {
			if b := basicOf(t); b != nil {
				if lo, hi, ok := intRange(b); ok {
					guards = append(guards, tLe(tBig(lo), bt), tLe(bt, tBig(hi)))
				}
			}
		}
	}
	qc := c.with(vars)
	qc.bound = map[string]bool{}
	for k := range c.bound {
		qc.bound[k] = true
	}
	for _, qv := range q.Vars {
		qc.bound[qv.Name] = true
	}
	body := qc.evalBool(q.Body)
	g := tAnd(guards...)
	if q.Forall {
		inner := tImp(g, body).S
		// explicit triggers: element references indexed by a bound variable (stable instantiation)
		if len(q.Vars) == 1 {
			bv := vars[q.Vars[0].Name].v.(Term).S
			pats := elemrefPatterns(inner, bv)
			if len(pats) > 0 && len(pats) <= 4 {
				var sb strings.Builder
				for _, p := range pats {
					sb.WriteString(" :pattern (" + p + ")")
				}
				return Term{fmt.Sprintf("(forall (%s) (! %s%s))", strings.Join(decls, " "), inner, sb.String()), SBool}
			}
		}
		return Term{fmt.Sprintf("(forall (%s) %s)", strings.Join(decls, " "), inner), SBool}
	}
	return Term{fmt.Sprintf("(exists (%s) %s)", strings.Join(decls, " "), tAnd(g, body).S), SBool}
}

func (c *SpecCtx) ghostArgs(args []Expr) []Term {
	var idx []Term
	for _, a := range args {
		v, _ := c.eval(a)
		switch vv := v.(type) {
		case Term:
			idx = append(idx, vv)
		case RefV:
			idx = append(idx, vv.Ref)
		default:
			c.fail("ghost function argument must be scalar")
		}
	}
	return idx
}

// locations evaluates an assigns target to heap locations.
func (c *SpecCtx) locations(x Expr) []assignTarget {
	e := c.e
	switch x := x.(type) {
	case *EIdent:
		if g, ok := e.DB.Ghosts[x.Name]; ok {
			return []assignTarget{{comp: e.ghostComp(g, c.pkg), whole: true}}
		}
		c.fail("assigns target %s", x.Name)
	case *ECall:
		switch x.Fun {
		case "val":
			v, _ := c.eval(x.Args[0])
			var ref Term
			switch vv := v.(type) {
			case RefV:
				ref = vv.Ref
			case Term:
				ref = vv
			}
			return []assignTarget{{comp: e.bigvalComp(), ref: ref}}
		case "bigvals":
			return []assignTarget{{comp: e.bigvalComp(), whole: true}}
		case "heap":
			sel, ok := x.Args[0].(*ESel)
			if !ok {
				c.fail("heap(T.f) expected")
			}
			var tn string
			switch b := sel.X.(type) {
			case *EIdent:
				tn = b.Name
			case *ESel:
				if id, ok := b.X.(*EIdent); ok {
					tn = id.Name + "." + b.Name
				}
			}
			t := c.resolveType(tn)
			return c.fieldTargets(Term{}, t, sel.Name, true)
		case "elems":
			v, t := c.eval(x.Args[0])
			_ = v
			sl, ok := t.Underlying().(*types.Slice)
			if !ok {
				c.fail("elems of non-slice")
			}
			names := map[string]bool{}
			e.allFieldCompNames(sl.Elem(), names)
			var out []assignTarget
			for n := range names {
				cp := e.compByName(n, sl.Elem())
				out = append(out, assignTarget{comp: cp, whole: true})
			}
			return out
		case "mapof":
			v, t := c.eval(x.Args[0])
			mt, ok := t.Underlying().(*types.Map)
			if !ok {
				c.fail("mapof non-map")
			}
			var out []assignTarget
			for _, l := range e.leaves(mt.Elem()) {
				out = append(out, assignTarget{comp: e.mapValComp(mt, l), ref: v.(Term)})
			}
			out = append(out, assignTarget{comp: e.mapHasComp(mt), ref: v.(Term)}, assignTarget{comp: e.mapLenComp(mt), ref: v.(Term)})
			return out
		case "allbut":
			// everything may change except the fields of the listed struct types (on any object)
			// and the caller's unescaped locals
			keepNames := map[string]bool{}
			for _, a := range x.Args {
				var tn string
				switch b := a.(type) {
				case *EIdent:
					tn = b.Name
				case *ESel:
					if id, ok := b.X.(*EIdent); ok {
						tn = id.Name + "." + b.Name
					}
				case *EStr:
					tn = b.V
				}
				t := c.resolveType(tn)
				e.allFieldCompNames(t, keepNames)
			}
			return []assignTarget{{whole: true, allBut: keepNames}}
		case "reach":
			// everything reachable from the pointer held by an interface-typed argument, by the
			// static type at the call site (reflection-based decoders write there)
			id, ok := x.Args[0].(*EIdent)
			if !ok || c.srcArgs == nil || c.srcArgs[id.Name] == nil {
				return []assignTarget{{whole: true}}
			}
			src := c.srcArgs[id.Name]
			var T types.Type
			if mi, ok := src.(*ssa.MakeInterface); ok {
				T = mi.X.Type()
			} else if _, isIface := src.Type().Underlying().(*types.Interface); !isIface {
				T = src.Type()
			}
			if T == nil {
				return []assignTarget{{whole: true}}
			}
			names := map[string]bool{}
			if !e.typeReach(T, names, map[string]bool{}, true) {
				return []assignTarget{{whole: true}}
			}
			var older Term
			if mi, ok := src.(*ssa.MakeInterface); ok && c.f != nil {
				if al, ok := mi.X.(*ssa.Alloc); ok {
					// destination allocated by this function: only it and younger objects are written
					if t, ok := c.f.vals[al].(Term); ok {
						older = t
					}
				}
			}
			var out []assignTarget
			for n := range names {
				if cp := e.comps[n]; cp != nil {
					out = append(out, assignTarget{comp: cp, whole: true, olderThan: older})
				}
			}
			return out
		case "all":
			v, t := c.eval(x.Args[0])
			var ref Term
			var S types.Type
			switch vv := v.(type) {
			case RefV:
				ref, S = vv.Ref, vv.T
			case Term:
				ref, S = vv, derefType(t)
			}
			return c.allFieldTargets(ref, S)
		}
		if g, ok := e.DB.GhostFns[x.Fun]; ok {
			cp, _, _ := e.ghostFnComp(g, c)
			idx := c.ghostArgs(x.Args)
			if len(idx) == 0 {
				return []assignTarget{{comp: cp, whole: true}}
			}
			return []assignTarget{{comp: cp, ref: idx[0], more: idx[1:]}}
		}
		c.fail("assigns target %s(...)", x.Fun)
	case *ESel:
		v, t := c.eval(x.X)
		var ref Term
		var S types.Type
		switch vv := v.(type) {
		case RefV:
			ref, S = vv.Ref, vv.T
		case Term:
			ref, S = vv, derefType(t)
		default:
			c.fail("assigns target on %T", v)
		}
		if S == nil {
			c.fail("assigns target: selector on non-pointer")
		}
		return c.fieldTargets(ref, S, x.Name, false)
	case *EIdx:
		v, t := c.eval(x.X)
		iv, _ := c.eval(x.I)
		switch u := t.Underlying().(type) {
		case *types.Slice:
			ref := e.elemRef(v.(SliceV), c.toInt(iv))
			if e.isStructT(u.Elem()) {
				return c.allFieldTargets(ref, u.Elem())
			}
			var out []assignTarget
			for _, l := range e.leaves(u.Elem()) {
				out = append(out, assignTarget{comp: e.cellComp(u.Elem(), l), ref: ref})
			}
			return out
		case *types.Map:
			var out []assignTarget
			for _, l := range e.leaves(u.Elem()) {
				out = append(out, assignTarget{comp: e.mapValComp(u, l), ref: v.(Term), mapKey: iv.(Term)})
			}
			out = append(out, assignTarget{comp: e.mapHasComp(u), ref: v.(Term), mapKey: iv.(Term)}, assignTarget{comp: e.mapLenComp(u), ref: v.(Term)})
			return out
		}
	case *EUn:
		if x.Op == "*" {
			v, t := c.eval(x.X)
			if fp, ok := v.(FieldPtr); ok {
				return c.fieldTargets(fp.Ref, fp.S, structOf(fp.S).Field(fp.Field).Name(), false)
			}
			et := derefType(t)
			if et == nil {
				c.fail("assigns *x on non-pointer")
			}
			if e.isBigInt(et) {
				return []assignTarget{{comp: e.bigvalComp(), ref: v.(Term)}}
			}
			if e.isStructT(et) {
				return c.allFieldTargets(v.(Term), et)
			}
			var out []assignTarget
			for _, l := range e.leaves(et) {
				out = append(out, assignTarget{comp: e.cellComp(et, l), ref: v.(Term)})
			}
			return out
		}
	}
	c.fail("unsupported assigns target")
	return nil
}

func (e *Enc) compByName(name string, elem types.Type) *Comp {
	if cp, ok := e.comps[name]; ok {
		return cp
	}
	// force creation by walking the type
	if st := structOf(elem); st != nil {
		for i := 0; i < st.NumFields(); i++ {
			ft := st.Field(i).Type()
			if e.subObj(ft) {
				if cp := e.compByName(name, ft); cp != nil {
					return cp
				}
				continue
			}
			for _, l := range e.leaves(ft) {
				cp := e.fieldComp(elem, i, l)
				if cp.Name == name {
					return cp
				}
			}
		}
		return e.comps[name]
	}
	for _, l := range e.leaves(elem) {
		cp := e.cellComp(elem, l)
		if cp.Name == name {
			return cp
		}
	}
	return e.comps[name]
}

func (c *SpecCtx) fieldTargets(ref Term, S types.Type, name string, whole bool) []assignTarget {
	e := c.e
	ft, i, ok := findField(S, name)
	if !ok {
		c.fail("assigns: no field %s in %s", name, S)
	}
	if e.subObj(ft) {
		if whole {
			names := map[string]bool{}
			e.allFieldCompNames(ft, names)
			var out []assignTarget
			for n := range names {
				out = append(out, assignTarget{comp: e.compByName(n, ft), whole: true})
			}
			return out
		}
		return c.allFieldTargets(e.subRef(S, i, ref), ft)
	}
	var out []assignTarget
	for _, l := range e.leaves(ft) {
		out = append(out, assignTarget{comp: e.fieldComp(S, i, l), ref: ref, whole: whole})
	}
	return out
}

func (c *SpecCtx) allFieldTargets(ref Term, S types.Type) []assignTarget {
	st := structOf(S)
	if st == nil {
		var out []assignTarget
		for _, l := range c.e.leaves(S) {
			out = append(out, assignTarget{comp: c.e.cellComp(S, l), ref: ref})
		}
		return out
	}
	var out []assignTarget
	for i := 0; i < st.NumFields(); i++ {
		out = append(out, c.fieldTargets(ref, S, st.Field(i).Name(), false)...)
	}
	return out
}

// typeReach collects (and creates) the components that hold memory reachable from a value of
// type t. top: the value itself is not memory (only what it points to).
func (e *Enc) typeReach(t types.Type, out map[string]bool, seen map[string]bool, top bool) (ok bool) {
	defer func() {
		if r := recover(); r != nil {
			if _, isU := r.(unsupported); !isU {
				panic(r)
			}
			ok = false
		}
	}()
	k := typeKey(t)
	if !top {
		if seen[k] {
			return true
		}
		seen[k] = true
	}
	switch u := t.Underlying().(type) {
	case *types.Pointer:
		el := u.Elem()
		if e.isBigInt(el) {
			out["bigval"] = true
			e.bigvalComp()
			return true
		}
		return e.memReach(el, out, seen)
	case *types.Slice:
		return e.memReach(u.Elem(), out, seen)
	case *types.Map:
		for _, l := range e.leaves(u.Elem()) {
			out[e.mapValComp(u, l).Name] = true
		}
		out[e.mapHasComp(u).Name] = true
		out[e.mapLenComp(u).Name] = true
		return e.typeReach(u.Elem(), out, seen, false)
	case *types.Struct:
		for i := 0; i < u.NumFields(); i++ {
			if !e.typeReach(u.Field(i).Type(), out, seen, false) {
				return false
			}
		}
	}
	return true
}

// memReach: memory holding a value of type t, and what it reaches.
func (e *Enc) memReach(t types.Type, out map[string]bool, seen map[string]bool) bool {
	if st := structOf(t); st != nil {
		if !isRepoType(t) && !e.isBigInt(t) {
			if _, named := t.(*types.Named); named {
				return true // internals of external types are not observable by the verified code
			}
		}
		for i := 0; i < st.NumFields(); i++ {
			ft := st.Field(i).Type()
			if e.subObj(ft) {
				if !e.memReach(ft, out, seen) {
					return false
				}
				continue
			}
			for _, l := range e.leaves(ft) {
				out[e.fieldComp(t, i, l).Name] = true
			}
			if !e.typeReach(ft, out, seen, false) {
				return false
			}
		}
		return true
	}
	for _, l := range e.leaves(t) {
		out[e.cellComp(t, l).Name] = true
	}
	return e.typeReach(t, out, seen, false)
}

// elemrefPatterns returns the distinct (elemref ...) sub-terms of s that mention bound variable bv.
func elemrefPatterns(s, bv string) []string {
	var out []string
	seen := map[string]bool{}
	for i := 0; i+9 <= len(s); i++ {
		if !strings.HasPrefix(s[i:], "(elemref ") {
			continue
		}
		depth := 0
		quoted := false
		for j := i; j < len(s); j++ {
			switch s[j] {
			case '|':
				quoted = !quoted
			case '(':
				if !quoted {
					depth++
				}
			case ')':
				if !quoted {
					depth--
				}
			}
			if depth == 0 {
				t := s[i : j+1]
				if strings.Contains(t, bv) && !seen[t] && strings.Count(t, "|q.") == strings.Count(t, bv) && !strings.Contains(t, "(forall") && !strings.Contains(t, "(exists") {
					seen[t] = true
					out = append(out, t)
				}
				break
			}
		}
	}
	return out
}
