package main

// Contract language: parser for contract files and for specification expressions.

import (
	"fmt"
	"os"
	"strings"
	"unicode"
)

// ---------- expression AST ----------

type Expr interface{}

type EIdent struct{ Name string }
type ENum struct{ V string }
type EFloat struct{ V string }
type EStr struct{ V string }
type EBin struct {
	Op   string
	L, R Expr
}
type EUn struct {
	Op string
	X  Expr
}
type ESel struct {
	X    Expr
	Name string
}
type EIdx struct{ X, I Expr }
type ECall struct {
	Fun  string
	Recv Expr // non-nil for method-style calls x.f(args)
	Args []Expr
}
type QVar struct{ Name, Type string }
type EQuant struct {
	Forall bool
	Vars   []QVar
	Body   Expr
}

type tok struct {
	k string // id num float str op eof
	s string
	p int
}

type lexer struct {
	src  string
	toks []tok
	i    int
}

var ops = []string{"<==>", "==>", "::", "==", "!=", "<=", ">=", "&&", "||", "<<", ">>", "&^",
	"<", ">", "!", "+", "-", "*", "/", "%", "(", ")", "[", "]", ",", ".", ":", "&", "|", "^", "?", "{", "}"}

func lex(src string) ([]tok, error) {
	var toks []tok
	i := 0
	for i < len(src) {
		c := rune(src[i])
		if unicode.IsSpace(c) {
			i++
			continue
		}
		if unicode.IsLetter(c) || c == '_' || c == '$' {
			j := i
			for j < len(src) && (unicode.IsLetter(rune(src[j])) || unicode.IsDigit(rune(src[j])) || src[j] == '_' || src[j] == '$') {
				j++
			}
			toks = append(toks, tok{"id", src[i:j], i})
			i = j
			continue
		}
		if unicode.IsDigit(c) {
			j := i
			isF := false
			if strings.HasPrefix(src[i:], "0x") || strings.HasPrefix(src[i:], "0X") {
				j = i + 2
				for j < len(src) && strings.ContainsRune("0123456789abcdefABCDEF_", rune(src[j])) {
					j++
				}
			} else {
				for j < len(src) && (unicode.IsDigit(rune(src[j])) || src[j] == '_' || (src[j] == '.' && j+1 < len(src) && unicode.IsDigit(rune(src[j+1]))) || src[j] == 'e' && isF) {
					if src[j] == '.' {
						isF = true
					}
					j++
				}
			}
			k := "num"
			if isF {
				k = "float"
			}
			toks = append(toks, tok{k, strings.ReplaceAll(src[i:j], "_", ""), i})
			i = j
			continue
		}
		if c == '"' {
			j := i + 1
			for j < len(src) && src[j] != '"' {
				if src[j] == '\\' {
					j++
				}
				j++
			}
			if j >= len(src) {
				return nil, fmt.Errorf("unterminated string at %d", i)
			}
			toks = append(toks, tok{"str", src[i+1 : j], i})
			i = j + 1
			continue
		}
		matched := false
		for _, o := range ops {
			if strings.HasPrefix(src[i:], o) {
				toks = append(toks, tok{"op", o, i})
				i += len(o)
				matched = true
				break
			}
		}
		if !matched {
			return nil, fmt.Errorf("bad character %q at %d in %q", c, i, src)
		}
	}
	toks = append(toks, tok{"eof", "", len(src)})
	return toks, nil
}

type sparser struct {
	toks []tok
	i    int
	src  string
}

func (p *sparser) peek() tok { return p.toks[p.i] }
func (p *sparser) next() tok { t := p.toks[p.i]; p.i++; return t }
func (p *sparser) isOp(s string) bool {
	t := p.peek()
	return t.k == "op" && t.s == s
}
func (p *sparser) isId(s string) bool {
	t := p.peek()
	return t.k == "id" && t.s == s
}
func (p *sparser) expectOp(s string) {
	if !p.isOp(s) {
		panic(fmt.Sprintf("expected %q at %d in %q (got %q)", s, p.peek().p, p.src, p.peek().s))
	}
	p.i++
}

func parseExpr(src string) (e Expr, err error) {
	toks, err := lex(src)
	if err != nil {
		return nil, err
	}
	p := &sparser{toks: toks, src: src}
	defer func() {
		if r := recover(); r != nil {
			err = fmt.Errorf("%v", r)
		}
	}()
	e = p.expr()
	if p.peek().k != "eof" {
		return nil, fmt.Errorf("trailing input at %d in %q", p.peek().p, src)
	}
	return e, nil
}

func (p *sparser) typeText() string {
	// read tokens making up a type until ',' or '::' at depth 0
	var sb strings.Builder
	depth := 0
	for {
		t := p.peek()
		if t.k == "eof" {
			break
		}
		if t.k == "op" && depth == 0 && (t.s == "," || t.s == "::" || t.s == ")" || t.s == "==" ) {
			break
		}
		if t.k == "op" && (t.s == "[" || t.s == "(") {
			depth++
		}
		if t.k == "op" && (t.s == "]") {
			depth--
		}
		sb.WriteString(t.s)
		p.i++
	}
	return sb.String()
}

func (p *sparser) expr() Expr {
	if p.isId("forall") || p.isId("exists") {
		fa := p.next().s == "forall"
		var vars []QVar
		for {
			n := p.next()
			if n.k != "id" {
				panic(fmt.Sprintf("quantifier variable expected in %q", p.src))
			}
			ty := p.typeText()
			vars = append(vars, QVar{n.s, ty})
			if p.isOp(",") {
				p.i++
				continue
			}
			break
		}
		p.expectOp("::")
		body := p.expr()
		return &EQuant{fa, vars, body}
	}
	return p.iff()
}

func (p *sparser) iff() Expr {
	l := p.impl()
	for p.isOp("<==>") {
		p.i++
		r := p.impl()
		l = &EBin{"<==>", l, r}
	}
	return l
}

func (p *sparser) impl() Expr {
	l := p.or()
	if p.isOp("==>") {
		p.i++
		var r Expr
		if p.isId("forall") || p.isId("exists") {
			r = p.expr()
		} else {
			r = p.impl()
		}
		return &EBin{"==>", l, r}
	}
	return l
}

func (p *sparser) or() Expr {
	l := p.and()
	for p.isOp("||") {
		p.i++
		l = &EBin{"||", l, p.and()}
	}
	return l
}

func (p *sparser) and() Expr {
	l := p.cmp()
	for p.isOp("&&") {
		p.i++
		var r Expr
		if p.isId("forall") || p.isId("exists") {
			r = p.expr()
		} else {
			r = p.cmp()
		}
		l = &EBin{"&&", l, r}
	}
	return l
}

func (p *sparser) cmp() Expr {
	l := p.add()
	for _, o := range []string{"==", "!=", "<=", ">=", "<", ">"} {
		if p.isOp(o) {
			p.i++
			r := p.add()
			e := Expr(&EBin{o, l, r})
			// chained comparisons a <= b < c
			for _, o2 := range []string{"<=", "<", ">=", ">"} {
				if p.isOp(o2) {
					p.i++
					r2 := p.add()
					e = &EBin{"&&", e, &EBin{o2, r, r2}}
					r = r2
				}
			}
			return e
		}
	}
	return l
}

func (p *sparser) add() Expr {
	l := p.mul()
	for p.isOp("+") || p.isOp("-") || p.isOp("|") || p.isOp("^") {
		o := p.next().s
		l = &EBin{o, l, p.mul()}
	}
	return l
}

func (p *sparser) mul() Expr {
	l := p.unary()
	for p.isOp("*") || p.isOp("/") || p.isOp("%") || p.isOp("&") || p.isOp("<<") || p.isOp(">>") || p.isOp("&^") {
		o := p.next().s
		l = &EBin{o, l, p.unary()}
	}
	return l
}

func (p *sparser) unary() Expr {
	if p.isOp("!") || p.isOp("-") || p.isOp("*") || p.isOp("&") {
		o := p.next().s
		return &EUn{o, p.unary()}
	}
	return p.postfix()
}

func (p *sparser) postfix() Expr {
	e := p.primary()
	for {
		switch {
		case p.isOp("."):
			p.i++
			n := p.next()
			if n.k != "id" {
				panic(fmt.Sprintf("field name expected at %d in %q", n.p, p.src))
			}
			if p.isOp("(") {
				p.i++
				args := p.args()
				// qualified spec function pkg.f(...) or method call
				e = &ECall{Fun: n.s, Recv: e, Args: args}
			} else {
				e = &ESel{e, n.s}
			}
		case p.isOp("["):
			p.i++
			i := p.expr()
			p.expectOp("]")
			e = &EIdx{e, i}
		default:
			return e
		}
	}
}

func (p *sparser) args() []Expr {
	var args []Expr
	if p.isOp(")") {
		p.i++
		return args
	}
	for {
		args = append(args, p.expr())
		if p.isOp(",") {
			p.i++
			continue
		}
		p.expectOp(")")
		return args
	}
}

func (p *sparser) primary() Expr {
	t := p.next()
	switch t.k {
	case "num":
		return &ENum{t.s}
	case "float":
		return &EFloat{t.s}
	case "str":
		return &EStr{t.s}
	case "id":
		if p.isOp("(") {
			p.i++
			return &ECall{Fun: t.s, Args: p.args()}
		}
		return &EIdent{t.s}
	case "op":
		if t.s == "(" {
			e := p.expr()
			p.expectOp(")")
			return e
		}
	}
	panic(fmt.Sprintf("unexpected %q at %d in %q", t.s, t.p, p.src))
}

// ---------- contract files ----------

type Clause struct {
	NoProve  bool
	NoAssume bool
	Label string
	Props []string // property ids restricting the clause; empty = function's props
	Src   string
	E     Expr
	File  string
	Line  int
}

type LoopSpec struct {
	Ordinal    int
	Invariants []*Clause
	Decreases  *Clause
	Unroll     int
}

type AssignTarget struct {
	Src string
	E   Expr // nil for "*"
	All bool
}

type FuncSpec struct {
	Key      string // as written: Name, (*T).Name, (T).Name, Name$1, or fully qualified for stdlib
	PkgPath  string // package the spec file belongs to ("" for stdlib spec files = fully qualified keys)
	Props    []string
	Requires []*Clause
	Needs    []*Clause // panic-freedom preconditions: proved by no-panic callers, otherwise assumed
	Ensures  []*Clause
	Asserts  []*Clause
	Assigns  []AssignTarget
	HasAssigns bool
	Trusted  bool
	Pure     bool   // assigns nothing, deterministic in args+heap
	NoPanic  bool   // generate safety obligations
	Preserves []*PreserveSpec
	CheckAts  []*CheckAt
	AssumesPre []string // callees whose preconditions are assumed (not checked) at this function's call sites
	NoMapOrder   *NoMapOrder
	PreciseElems bool // model copy/append of slices whose elements contain nested structs/arrays element-wise (default: havoc)
	PreOnly  bool   // only the preconditions are used at call sites; the body is still opened/havocked as if there were no contract
	Witness  []*Clause // named entry-state terms whose counterexample values the replay generators need
	NoInline bool
	OpaqueCallees bool
	Inline   bool
	Gates    []*Gate
	GatesExempt *Clause // successful returns not guarded by the gates are allowed only under this condition
	Loops    map[int]*LoopSpec
	Params   []string // optional explicit parameter names for stdlib (names unknown from export data)
	File     string
	Line     int
	Notes    []string
	MayPanic bool
}

// Gate: the error return identified by (a prefix of) its message must be taken whenever Cond holds
// at the branch that guards it, and that branch must dominate every successful return.
// PreserveSpec: "preserves [props] label: "comp", ... across "callee", ...": the listed heap
// components are not written (except inside objects the writer allocated) by the listed callees of
// this function; one obligation per writing instruction found by the transitive write-set analysis.
type PreserveSpec struct {
	Label   string
	Props   []string
	Comps   []string
	Callees []string
	Except  []string // functions whose own writes are the sanctioned way to change the component
	Src     string
}

// CheckAt: "check-at [props] label: call "callee[#k]" : cond" or "check-at label: send : cond" — cond
// must hold in the state right before every such instruction of this function.
type NoMapOrder struct {
	Label string
	Props []string
}

type CheckAt struct {
	Label  string
	Props  []string
	Callee string // "" for channel sends
	Send   bool
	// MapUpdate: 0 = not a map-store point, -1 = every map store, k > 0 = the k-th map store in source order
	MapUpdate int
	Cond      *Clause
}

type Gate struct {
	Msg    string
	Cond   *Clause
	Props  []string
	Before string // when set: the gate guards every call of this callee instead of every successful return
}

type SpecFunc struct {
	Name    string
	Params  []QVar
	Result  string
	Body    Expr // nil = uninterpreted
	BodySrc string
	PkgPath string
	ReadsHeap bool
}

type Axiom struct {
	Name    string
	Src     string
	E       Expr
	PkgPath string
	Lemma   bool // lemma = proved, axiom = assumed
	Props   []string
	File    string
	Line    int
}

type GhostVar struct {
	Name, Type, PkgPath string
}

type SpecDB struct {
	Funcs   []*FuncSpec
	Specs   map[string]*SpecFunc // by name (global namespace)
	Axioms  []*Axiom
	Ghosts  map[string]*GhostVar
	Consts  map[string]string
	GhostFns map[string]*SpecFunc
}

func newSpecDB() *SpecDB {
	return &SpecDB{Specs: map[string]*SpecFunc{}, Ghosts: map[string]*GhostVar{}, Consts: map[string]string{}, GhostFns: map[string]*SpecFunc{}}
}

func parseClause(rest, file string, line int) (*Clause, error) {
	c := &Clause{File: file, Line: line}
	rest = strings.TrimSpace(rest)
	// optional [C04,C05] prefix
	if strings.HasPrefix(rest, "[") {
		if j := strings.Index(rest, "]"); j > 0 {
			for _, p := range strings.Split(rest[1:j], ",") {
				c.Props = append(c.Props, strings.TrimSpace(p))
			}
			rest = strings.TrimSpace(rest[j+1:])
		}
	}
	// optional label:  (identifier with dashes followed by ':' and not '::')
	if j := strings.Index(rest, ":"); j > 0 && !strings.HasPrefix(rest[j:], "::") {
		lab := rest[:j]
		ok := true
		for _, r := range lab {
			if !(unicode.IsLetter(r) || unicode.IsDigit(r) || r == '-' || r == '_' || r == '.' || r == '/') {
				ok = false
			}
		}
		if ok {
			c.Label = lab
			rest = strings.TrimSpace(rest[j+1:])
		}
	}
	c.Src = rest
	e, err := parseExpr(rest)
	if err != nil {
		return nil, fmt.Errorf("%s:%d: %v", file, line, err)
	}
	c.E = e
	return c, nil
}

// parseSpecFile parses one contract file. pkgPath is "" for engine stdlib files.
func (db *SpecDB) parseSpecFile(file, pkgPath string) error {
	data, err := os.ReadFile(file)
	if err != nil {
		return err
	}
	return db.parseSpecText(string(data), file, pkgPath)
}

func (db *SpecDB) parseSpecText(text, file, pkgPath string) error {
	// gather logical lines
	type lline struct {
		s    string
		line int
	}
	var lines []lline
	for i, raw := range strings.Split(text, "\n") {
		t := strings.TrimLeft(raw, " \t")
		var body string
		if strings.HasPrefix(t, "//@") {
			body = t[3:]
		} else if strings.HasPrefix(t, "// @") {
			body = t[4:]
		} else {
			continue
		}
		if strings.HasPrefix(body, "  ") || strings.HasPrefix(body, "\t") {
			if len(lines) == 0 {
				return fmt.Errorf("%s:%d: continuation without a clause", file, i+1)
			}
			lines[len(lines)-1].s += " " + strings.TrimSpace(body)
			continue
		}
		body = strings.TrimSpace(body)
		if body == "" || strings.HasPrefix(body, "#") {
			continue
		}
		lines = append(lines, lline{body, i + 1})
	}
	var cur *FuncSpec
	var curLoop *LoopSpec
	for _, l := range lines {
		kw := l.s
		rest := ""
		if j := strings.IndexAny(l.s, " \t"); j > 0 {
			kw = l.s[:j]
			rest = strings.TrimSpace(l.s[j+1:])
		}
		fail := func(f string, a ...interface{}) error {
			return fmt.Errorf("%s:%d: %s", file, l.line, fmt.Sprintf(f, a...))
		}
		switch kw {
		case "func":
			cur = &FuncSpec{Key: rest, PkgPath: pkgPath, Loops: map[int]*LoopSpec{}, File: file, Line: l.line}
			// optional explicit params: func key(a, b, c)
			if j := strings.LastIndex(rest, "("); j > 0 && strings.HasSuffix(rest, ")") && !strings.HasPrefix(rest[j:], "(*") && j > strings.LastIndex(rest, ").") {
				ps := rest[j+1 : len(rest)-1]
				cur.Key = strings.TrimSpace(rest[:j])
				for _, p := range strings.Split(ps, ",") {
					if p = strings.TrimSpace(p); p != "" {
						cur.Params = append(cur.Params, p)
					}
				}
			}
			curLoop = nil
			db.Funcs = append(db.Funcs, cur)
		case "end":
			cur, curLoop = nil, nil
		case "props":
			if cur == nil {
				return fail("props outside func")
			}
			cur.Props = append(cur.Props, strings.Fields(strings.ReplaceAll(rest, ",", " "))...)
		case "gates-exempt":
			if cur == nil {
				return fail("gates-exempt outside func")
			}
			cl, err := parseClause(rest, file, l.line)
			if err != nil {
				return err
			}
			cur.GatesExempt = cl
		case "gate":
			// gate "message": condition
			if cur == nil {
				return fail("gate outside func")
			}
			r := strings.TrimSpace(rest)
			var props []string
			if strings.HasPrefix(r, "[") {
				if j := strings.Index(r, "]"); j > 0 {
					for _, p := range strings.Split(r[1:j], ",") {
						props = append(props, strings.TrimSpace(p))
					}
					r = strings.TrimSpace(r[j+1:])
				}
			}
			if !strings.HasPrefix(r, "\"") {
				return fail("gate \"message\": condition")
			}
			j := strings.Index(r[1:], "\"")
			if j < 0 {
				return fail("gate: unterminated message")
			}
			msg := r[1 : j+1]
			tail := strings.TrimSpace(r[j+2:])
			before := ""
			if strings.HasPrefix(tail, "before ") {
				// gate "message" before "callee": condition
				t2 := strings.TrimSpace(strings.TrimPrefix(tail, "before "))
				if !strings.HasPrefix(t2, "\"") {
					return fail("gate \"message\" before \"callee\": condition")
				}
				k := strings.Index(t2[1:], "\"")
				if k < 0 {
					return fail("gate: unterminated callee")
				}
				before = t2[1 : k+1]
				tail = strings.TrimSpace(t2[k+2:])
			}
			condSrc := strings.TrimSpace(strings.TrimPrefix(tail, ":"))
			cl, err := parseClause(condSrc, file, l.line)
			if err != nil {
				return err
			}
			cl.Props = props
			cur.Gates = append(cur.Gates, &Gate{Msg: msg, Cond: cl, Props: props, Before: before})
		case "ensures-split":
			// ensures-split <selector> <lo> <hi> label: body
			// expands to one clause per value lo..hi of the selector plus one for all other values,
			// so that the solver proves each case on its own (together they are the unsplit clause)
			if cur == nil {
				return fail("ensures-split outside func")
			}
			parts := strings.Fields(rest)
			if len(parts) < 4 {
				return fail("ensures-split <selector> <lo> <hi> label: body")
			}
			sel := parts[0]
			var lo, hi int
			fmt.Sscanf(parts[1], "%d", &lo)
			fmt.Sscanf(parts[2], "%d", &hi)
			tail := strings.TrimSpace(rest[strings.Index(rest, parts[2])+len(parts[2]):])
			propsPrefix := ""
			if strings.HasPrefix(tail, "[") {
				if j := strings.Index(tail, "]"); j > 0 {
					propsPrefix = tail[:j+1] + " "
					tail = strings.TrimSpace(tail[j+1:])
				}
			}
			ci := strings.Index(tail, ":")
			if ci <= 0 {
				return fail("ensures-split needs a label")
			}
			label, body := strings.TrimSpace(tail[:ci]), strings.TrimSpace(tail[ci+1:])
			for k := lo; k <= hi+1; k++ {
				var src, lab string
				if k <= hi {
					src = fmt.Sprintf("%s == %d ==> (%s)", sel, k, body)
					lab = fmt.Sprintf("%s.%d", label, k)
				} else {
					src = fmt.Sprintf("(%s < %d || %s > %d) ==> (%s)", sel, lo, sel, hi, body)
					lab = label + ".other"
				}
				c, err := parseClause(propsPrefix+lab+": "+src, file, l.line)
				if err != nil {
					return err
				}
				cur.Ensures = append(cur.Ensures, c)
			}
		case "requires", "needs", "ensures", "proves", "defines", "assert", "invariant", "decreases":
			if cur == nil {
				return fail("%s outside func", kw)
			}
			c, err := parseClause(rest, file, l.line)
			if err != nil {
				return err
			}
			switch kw {
			case "requires":
				cur.Requires = append(cur.Requires, c)
			case "needs":
				cur.Needs = append(cur.Needs, c)
			case "ensures":
				if strings.Contains(c.Src, "lastresult(") || strings.Contains(c.Src, "laststr(") {
					c.NoAssume = true // speaks about the function's own call sites: meaningless to callers
				}
				cur.Ensures = append(cur.Ensures, c)
			case "defines":
				// a definitional postcondition: it gives a name (an uninterpreted specification
				// function) to the function's result; assumed at call sites, not an obligation
				c.NoProve = true
				cur.Ensures = append(cur.Ensures, c)
				cur.Notes = append(cur.Notes, "defines: "+c.Src)
			case "proves":
				// a postcondition that is proved for the function but not assumed at its call sites
				// (callers can derive it from the other clauses and the frame; assuming it would only
				// add quantifier load)
				c.NoAssume = true
				cur.Ensures = append(cur.Ensures, c)
			case "assert":
				cur.Asserts = append(cur.Asserts, c)
			case "invariant":
				if curLoop == nil {
					return fail("invariant outside loop")
				}
				curLoop.Invariants = append(curLoop.Invariants, c)
			case "decreases":
				if curLoop == nil {
					return fail("decreases outside loop")
				}
				curLoop.Decreases = c
			}
		case "loop":
			if cur == nil {
				return fail("loop outside func")
			}
			var n int
			fmt.Sscanf(rest, "%d", &n)
			if n <= 0 {
				return fail("bad loop ordinal %q", rest)
			}
			curLoop = &LoopSpec{Ordinal: n}
			cur.Loops[n] = curLoop
		case "unroll":
			if curLoop == nil {
				return fail("unroll outside loop")
			}
			fmt.Sscanf(rest, "%d", &curLoop.Unroll)
		case "assigns":
			if cur == nil {
				return fail("assigns outside func")
			}
			cur.HasAssigns = true
			for _, part := range splitTop(rest) {
				part = strings.TrimSpace(part)
				if part == "" || part == "none" || part == "nothing" {
					continue
				}
				if part == "*" {
					cur.Assigns = append(cur.Assigns, AssignTarget{Src: "*", All: true})
					continue
				}
				e, err := parseExpr(part)
				if err != nil {
					return fail("%v", err)
				}
				cur.Assigns = append(cur.Assigns, AssignTarget{Src: part, E: e})
			}
		case "trusted":
			if cur == nil {
				return fail("trusted outside func")
			}
			cur.Trusted = true
			if rest != "" {
				cur.Notes = append(cur.Notes, rest)
			}
		case "pure":
			if cur == nil {
				return fail("pure outside func")
			}
			cur.Pure = true
			cur.HasAssigns = true
		case "preserves":
			if cur == nil {
				return fail("preserves outside func")
			}
			r := strings.TrimSpace(rest)
			var props []string
			if strings.HasPrefix(r, "[") {
				if j := strings.Index(r, "]"); j > 0 {
					for _, p := range strings.Split(r[1:j], ",") {
						props = append(props, strings.TrimSpace(p))
					}
					r = strings.TrimSpace(r[j+1:])
				}
			}
			i := strings.Index(r, ":")
			k := strings.Index(r, " across ")
			if i < 0 || k < i {
				return fail("preserves label: \"comp\", ... across \"callee\", ...")
			}
			quoted := func(s string) []string {
				var out []string
				for {
					a := strings.Index(s, "\"")
					if a < 0 {
						break
					}
					b := strings.Index(s[a+1:], "\"")
					if b < 0 {
						break
					}
					out = append(out, s[a+1:a+1+b])
					s = s[a+b+2:]
				}
				return out
			}
			tail := r[k+8:]
			var except []string
			if x := strings.Index(tail, " except "); x >= 0 {
				except = quoted(tail[x+8:])
				tail = tail[:x]
			}
			ps := &PreserveSpec{Label: strings.TrimSpace(r[:i]), Props: props, Comps: quoted(r[i+1 : k]), Callees: quoted(tail), Except: except, Src: r}
			if len(ps.Comps) == 0 || len(ps.Callees) == 0 {
				return fail("preserves: needs components and callees")
			}
			cur.Preserves = append(cur.Preserves, ps)
		case "check-at":
			if cur == nil {
				return fail("check-at outside func")
			}
			r := strings.TrimSpace(rest)
			var props []string
			if strings.HasPrefix(r, "[") {
				if j := strings.Index(r, "]"); j > 0 {
					for _, p := range strings.Split(r[1:j], ",") {
						props = append(props, strings.TrimSpace(p))
					}
					r = strings.TrimSpace(r[j+1:])
				}
			}
			i := strings.Index(r, ":")
			if i < 0 {
				return fail("check-at label: call \"callee\" : cond")
			}
			ca := &CheckAt{Label: strings.TrimSpace(r[:i]), Props: props}
			tail := strings.TrimSpace(r[i+1:])
			switch {
			case strings.HasPrefix(tail, "send"):
				ca.Send = true
				tail = strings.TrimSpace(strings.TrimPrefix(tail, "send"))
			case strings.HasPrefix(tail, "mapupdate"):
				// mapupdate[#k]: the k-th map store (m[key] = value) in source order; binds map, key, value
				tail = strings.TrimSpace(strings.TrimPrefix(tail, "mapupdate"))
				ca.MapUpdate = -1
				if strings.HasPrefix(tail, "#") {
					j := 1
					for j < len(tail) && tail[j] >= '0' && tail[j] <= '9' {
						j++
					}
					fmt.Sscan(tail[1:j], &ca.MapUpdate)
					tail = strings.TrimSpace(tail[j:])
				}
			case strings.HasPrefix(tail, "call "):
				t2 := strings.TrimSpace(strings.TrimPrefix(tail, "call "))
				if !strings.HasPrefix(t2, "\"") {
					return fail("check-at: call \"callee\"")
				}
				k := strings.Index(t2[1:], "\"")
				if k < 0 {
					return fail("check-at: unterminated callee")
				}
				ca.Callee = t2[1 : k+1]
				tail = strings.TrimSpace(t2[k+2:])
			default:
				return fail("check-at: expected send, mapupdate[#k] or call \"callee\"")
			}
			if !strings.HasPrefix(tail, ":") {
				return fail("check-at: missing ': cond'")
			}
			cl, err := parseClause(strings.TrimSpace(tail[1:]), file, l.line)
			if err != nil {
				return err
			}
			cl.Props = props
			ca.Cond = cl
			cur.CheckAts = append(cur.CheckAts, ca)
		case "assumes-pre":
			// assumes-pre "callee": the callee's requires clauses are taken as given at the call sites
			// in this function (what establishes them is outside this contract); reported as an assumption
			if cur == nil {
				return fail("assumes-pre outside func")
			}
			r := strings.TrimSpace(rest)
			if !strings.HasPrefix(r, "\"") || strings.Count(r, "\"") < 2 {
				return fail("assumes-pre \"callee\"")
			}
			cur.AssumesPre = append(cur.AssumesPre, r[1:1+strings.Index(r[1:], "\"")])
		case "precise-elements":
			if cur == nil {
				return fail("precise-elements outside func")
			}
			cur.PreciseElems = true
		case "no-map-order":
			// no-map-order [props] label: the function (and the closures it defines) never walks a Go
			// map with range - nothing it computes can depend on the order in which a map is iterated
			if cur == nil {
				return fail("no-map-order outside func")
			}
			r := strings.TrimSpace(rest)
			nm := &NoMapOrder{Label: "no-map-iteration"}
			if strings.HasPrefix(r, "[") {
				if j := strings.Index(r, "]"); j > 0 {
					for _, p := range strings.Split(r[1:j], ",") {
						nm.Props = append(nm.Props, strings.TrimSpace(p))
					}
					r = strings.TrimSpace(r[j+1:])
				}
			}
			if r != "" {
				nm.Label = strings.TrimSuffix(r, ":")
			}
			cur.NoMapOrder = nm
		case "pre-only":
			if cur == nil {
				return fail("pre-only outside func")
			}
			cur.PreOnly = true
		case "witness":
			// witness name: expr — a term over the entry state reported with every counterexample
			if cur == nil {
				return fail("witness outside func")
			}
			i := strings.Index(rest, ":")
			if i < 0 {
				return fail("witness name: expr")
			}
			ex, err := parseExpr(strings.TrimSpace(rest[i+1:]))
			if err != nil {
				return fail(err.Error())
			}
			cur.Witness = append(cur.Witness, &Clause{Label: strings.TrimSpace(rest[:i]), Src: strings.TrimSpace(rest[i+1:]), E: ex})
		case "nopanic":
			if cur == nil {
				return fail("nopanic outside func")
			}
			cur.NoPanic = true
		case "maypanic":
			if cur == nil {
				return fail("maypanic outside func")
			}
			cur.MayPanic = true
		case "opaque-callees":
			// callees without a contract are not inlined: only their write set is havocked
			cur.OpaqueCallees = true
		case "noinline":
			cur.NoInline = true
		case "inline":
			cur.Inline = true
		case "note":
			if cur != nil {
				cur.Notes = append(cur.Notes, rest)
			}
		case "ghostfn":
			sf, err := parseSpecFunc(rest, false)
			if err != nil {
				return fail("%v", err)
			}
			if sf.Body != nil {
				return fail("ghostfn %s cannot have a body", sf.Name)
			}
			sf.PkgPath = pkgPath
			db.GhostFns[sf.Name] = sf
		case "spec", "pred":
			sf, err := parseSpecFunc(rest, kw == "pred")
			if err != nil {
				return fail("%v", err)
			}
			sf.PkgPath = pkgPath
			if _, dup := db.Specs[sf.Name]; dup {
				return fail("duplicate spec function %s", sf.Name)
			}
			db.Specs[sf.Name] = sf
		case "axiom", "lemma":
			c, err := parseClause(rest, file, l.line)
			if err != nil {
				return err
			}
			if c.Label == "" {
				return fail("%s needs a name", kw)
			}
			db.Axioms = append(db.Axioms, &Axiom{Name: c.Label, Src: c.Src, E: c.E, PkgPath: pkgPath, Lemma: kw == "lemma", Props: c.Props, File: file, Line: l.line})
		case "ghost":
			f := strings.Fields(rest)
			if len(f) != 2 {
				return fail("ghost <name> <type>")
			}
			db.Ghosts[f[0]] = &GhostVar{f[0], f[1], pkgPath}
		case "const":
			f := strings.SplitN(rest, "=", 2)
			if len(f) != 2 {
				return fail("const name = value")
			}
			db.Consts[strings.TrimSpace(f[0])] = strings.TrimSpace(f[1])
		default:
			return fail("unknown directive %q", kw)
		}
	}
	return nil
}

func splitTop(s string) []string {
	var parts []string
	depth := 0
	start := 0
	for i, r := range s {
		switch r {
		case '(', '[':
			depth++
		case ')', ']':
			depth--
		case ',':
			if depth == 0 {
				parts = append(parts, s[start:i])
				start = i + 1
			}
		}
	}
	parts = append(parts, s[start:])
	return parts
}

// parseSpecFunc parses "name(a T, b U) R = body" or "name(a T) R".
func parseSpecFunc(s string, isPred bool) (*SpecFunc, error) {
	j := strings.Index(s, "(")
	if j <= 0 {
		return nil, fmt.Errorf("spec: missing parameter list in %q", s)
	}
	name := strings.TrimSpace(s[:j])
	depth := 0
	k := -1
	for i := j; i < len(s); i++ {
		if s[i] == '(' {
			depth++
		} else if s[i] == ')' {
			depth--
			if depth == 0 {
				k = i
				break
			}
		}
	}
	if k < 0 {
		return nil, fmt.Errorf("spec: unbalanced parens in %q", s)
	}
	sf := &SpecFunc{Name: name}
	for _, p := range splitTop(s[j+1 : k]) {
		p = strings.TrimSpace(p)
		if p == "" {
			continue
		}
		f := strings.SplitN(p, " ", 2)
		if len(f) != 2 {
			return nil, fmt.Errorf("spec: parameter %q needs a type", p)
		}
		sf.Params = append(sf.Params, QVar{f[0], strings.TrimSpace(f[1])})
	}
	rest := strings.TrimSpace(s[k+1:])
	body := ""
	if e := strings.Index(rest, "="); e >= 0 && !strings.HasPrefix(rest[e:], "==") {
		body = strings.TrimSpace(rest[e+1:])
		rest = strings.TrimSpace(rest[:e])
	}
	sf.Result = rest
	if isPred && sf.Result == "" {
		sf.Result = "bool"
	}
	if sf.Result == "" {
		return nil, fmt.Errorf("spec %s: missing result type", name)
	}
	if body != "" {
		e, err := parseExpr(body)
		if err != nil {
			return nil, err
		}
		sf.Body = e
		sf.BodySrc = body
	}
	return sf, nil
}
