package main

import (
	"encoding/json"
	"fmt"
	"os"
	"os/exec"
	"path/filepath"
	"strings"
)

type replayFile struct {
	Property   string `json:"property"`
	Obligation string `json:"obligation"`
	Kind       string `json:"kind"`
	Function   string `json:"function"`
	Position   string `json:"position"`
	Clause     string `json:"clause"`
	Verdict    string `json:"verdict"`
	Solver     string `json:"solver"`
	Reason     string `json:"reason"`
	Goal       string `json:"smt_goal,omitempty"`
	Inputs     map[string]string `json:"counterexample_inputs,omitempty"`
	Model      string `json:"solver_output"`
	Replayed   bool   `json:"replayed_on_real_code"`
	ReplayTest string `json:"replay_test,omitempty"`
	ReplayPkg  string `json:"replay_pkg,omitempty"`
	ReplayOut  string `json:"replay_output,omitempty"`
}

func writeReplay(dir, property string, o *Obligation, P *Program, repo string) string {
	os.MkdirAll(dir, 0o755)
	name := sanitize(o.Name)
	if len(name) > 150 {
		name = name[:150]
	}
	path := filepath.Join(dir, name+".json")
	rf := replayFile{Property: property, Obligation: o.Name, Kind: o.Kind, Function: o.Fn, Clause: o.Src, Verdict: o.Verdict, Solver: o.Solver, Model: o.Model, Goal: "reach: " + o.Reach.S + " goal: " + o.Goal.S, Inputs: o.Inputs}
	if P != nil && o.Pos.IsValid() {
		ps := P.Fset.Position(o.Pos)
		rf.Position = fmt.Sprintf("%s:%d", strings.TrimPrefix(ps.Filename, repo+"/"), ps.Line)
	}
	switch o.Verdict {
	case "sat":
		rf.Reason = "the solver found a state satisfying the path condition and violating the clause"
	case "unsupported":
		rf.Reason = "the obligation could not be encoded: " + o.Tainted
	default:
		rf.Reason = "no solver could discharge the obligation (" + o.Verdict + ")"
	}
	tryReplay(&rf, o, P, repo)
	o.replayed = rf.Replayed
	data, _ := json.MarshalIndent(rf, "", " ")
	os.WriteFile(path, data, 0o644)
	return path
}

func runReplay(path, repo string) int {
	data, err := os.ReadFile(path)
	if err != nil {
		fmt.Fprintln(os.Stderr, err)
		return 2
	}
	var rf replayFile
	if err := json.Unmarshal(data, &rf); err != nil {
		fmt.Fprintln(os.Stderr, err)
		return 2
	}
	fmt.Printf("obligation: %s\nclause: %s\nverdict: %s (%s)\nreason: %s\n", rf.Obligation, rf.Clause, rf.Verdict, rf.Solver, rf.Reason)
	if rf.ReplayTest == "" {
		fmt.Println("no executable replay is attached to this obligation (no-failing-input-found)")
		return 1
	}
	out, failed := runReplayTest(repo, rf.ReplayPkg, rf.ReplayTest)
	fmt.Println(out)
	if failed {
		fmt.Println("replay reproduces the violation on the real code")
		return 1
	}
	fmt.Println("replay does not reproduce on the current tree")
	return 0
}

// tryReplay attaches an executable replay when a generator exists for the obligation.
func tryReplay(rf *replayFile, o *Obligation, P *Program, repo string) {
	for _, g := range replayGens {
		if g.match(o) {
			test, pkg := g.gen(o, P)
			if test == "" {
				continue
			}
			rf.ReplayTest = test
			rf.ReplayPkg = pkg
			out, failed := runReplayTest(repo, pkg, test)
			rf.ReplayOut = out
			rf.Replayed = failed
			return
		}
	}
}

type replayGen struct {
	match func(o *Obligation) bool
	gen   func(o *Obligation, P *Program) (test string, pkg string)
}

var replayGens []replayGen

// runReplayTest injects test (a _test.go source) into package pkg of repo through a build overlay
// (nothing is written into the repository) and runs it. The replay reproduces when the test
// fails and prints the marker line.
func runReplayTest(repo, pkg, test string) (string, bool) {
	dir, err := os.MkdirTemp("", "vreplay")
	if err != nil {
		return err.Error(), false
	}
	defer os.RemoveAll(dir)
	if err := writeOverlay(repo, dir); err != nil {
		return err.Error(), false
	}
	tf := filepath.Join(dir, "zz_verif_replay_test.go")
	os.WriteFile(tf, []byte(test), 0o644)
	red, _ := os.ReadFile(filepath.Join(dir, "ipfs_reduced.go"))
	_ = red
	ov := fmt.Sprintf("{\"Replace\": {%q: %q, %q: %q}}\n", filepath.Join(repo, "ipfs", "ipfs.go"), filepath.Join(dir, "ipfs_reduced.go"),
		filepath.Join(repo, pkg, "zz_verif_replay_test.go"), tf)
	os.WriteFile(filepath.Join(dir, "ov.json"), []byte(ov), 0o644)
	cmd := exec.Command("go", "test", "-overlay", filepath.Join(dir, "ov.json"), "-vet=off", "-count=1", "-timeout", "120s", "-run", "TestVerifReplay", "./"+pkg)
	cmd.Dir = repo
	cmd.Env = append(os.Environ(), "GOFLAGS=-mod=mod", "GOPROXY=off", "GOSUMDB=off", "GOTOOLCHAIN=local")
	out, err := cmd.CombinedOutput()
	o := string(out)
	if len(o) > 4000 {
		o = o[:4000]
	}
	return o, err != nil && strings.Contains(o, "VERIF-REPLAY-VIOLATION")
}
