package main

import (
	"bytes"
	"context"
	"fmt"
	"os"
	"os/exec"
	"path/filepath"
	"strings"
	"sync"
	"time"
)

type solverDef struct {
	name string
	args func(file string, timeoutS int) []string
	cvc  bool
}

var solvers = []solverDef{
	{"z3-5.1.0", func(f string, t int) []string { return []string{"z3-new", "-smt2", fmt.Sprintf("-T:%d", t), f} }, false},
	{"cvc5-1.0.3", func(f string, t int) []string {
		return []string{"cvc5", "--lang=smt2", fmt.Sprintf("--tlimit=%d", t*1000), f}
	}, true},
	{"z3-4.8.12", func(f string, t int) []string { return []string{"z3", "-smt2", fmt.Sprintf("-T:%d", t), f} }, false},
}

// ---------- cone-of-influence slicing ----------
// Every assertion is either a definition (= |sym| expr) or a fact. For one obligation only the
// definitions of symbols reachable from its goal and reach variable, and the facts all of whose
// symbols are in that cone, are needed; leaving the rest out only removes assumptions (sound)
// and keeps queries of large functions small.

type slicer struct {
	header  []string          // options, sorts, unquoted declarations
	decl    map[string]string // |sym| -> declare-fun line
	defOf   map[string]int    // |sym| -> index into asserts
	asserts []string
	syms    [][]string
	isDef   []bool
	quant   []bool
	factsOf map[string][]int
}

func quotedSyms(s string) []string {
	var out []string
	for i := 0; i < len(s); i++ {
		if s[i] == '|' {
			j := strings.IndexByte(s[i+1:], '|')
			if j < 0 {
				break
			}
			out = append(out, s[i:i+j+2])
			i += j + 1
		}
	}
	return out
}

func (e *Enc) newSlicer() *slicer {
	sl := &slicer{decl: map[string]string{}, defOf: map[string]int{}, factsOf: map[string][]int{}}
	sl.header = append(sl.header, "(set-option :produce-models true)", "(set-logic ALL)")
	sl.header = append(sl.header, e.sortDecl...)
	for _, d := range e.decls {
		if strings.HasPrefix(d, "(declare-fun |") {
			q := quotedSyms(d)
			if len(q) > 0 && strings.HasPrefix(d, "(declare-fun "+q[0]+" ") {
				if _, dup := sl.decl[q[0]]; !dup {
					sl.decl[q[0]] = d
					continue
				}
			}
		}
		sl.header = append(sl.header, d)
	}
	for i, a := range e.asserts {
		sl.asserts = append(sl.asserts, a)
		q := quotedSyms(a)
		sl.syms = append(sl.syms, q)
		isDef := false
		if strings.HasPrefix(a, "(= |") && len(q) > 0 && strings.HasPrefix(a, "(= "+q[0]+" ") {
			if _, dup := sl.defOf[q[0]]; !dup {
				sl.defOf[q[0]] = i
				isDef = true
			}
		}
		sl.isDef = append(sl.isDef, isDef)
		sl.quant = append(sl.quant, strings.Contains(a, "(forall "))
		if !isDef {
			for _, t := range q {
				sl.factsOf[t] = append(sl.factsOf[t], i)
			}
		}
	}
	return sl
}

// query renders the sliced prelude for the given seed terms. full=false drops quantified facts.
func (sl *slicer) query(full bool, seeds ...string) string {
	need := map[string]bool{}
	var work []string
	add := func(s string) {
		if !need[s] {
			need[s] = true
			work = append(work, s)
		}
	}
	for _, sd := range seeds {
		for _, s := range quotedSyms(sd) {
			add(s)
		}
	}
	// worklist closure: a needed symbol pulls in its definition's symbols and every fact that
	// mentions it (facts relate values to allocation counters, slices to their bounds, ...)
	factDone := map[int]bool{}
	for len(work) > 0 {
		s := work[len(work)-1]
		work = work[:len(work)-1]
		if i, ok := sl.defOf[s]; ok {
			for _, t := range sl.syms[i] {
				add(t)
			}
		}
		if d, isDecl := sl.decl[s]; isDecl && !strings.Contains(d, " () ") {
			continue // function symbols do not pull in every fact that uses them
		}
		for _, i := range sl.factsOf[s] {
			if factDone[i] || (sl.quant[i] && !full) {
				continue
			}
			factDone[i] = true
			for _, t := range sl.syms[i] {
				add(t)
			}
		}
	}
	// facts may mention function symbols (declared with arguments): those never have definitions
	var sb strings.Builder
	for _, h := range sl.header {
		sb.WriteString(h)
		sb.WriteString("\n")
	}
	include := make([]bool, len(sl.asserts))
	for i := range sl.asserts {
		if sl.isDef[i] {
			q := sl.syms[i]
			include[i] = need[q[0]]
			continue
		}
		if !full && sl.quant[i] {
			continue
		}
		ok := true
		for _, t := range sl.syms[i] {
			if !need[t] {
				if d, isDecl := sl.decl[t]; isDecl && !strings.Contains(d, " () ") {
					continue // a function symbol (spec function, sub-object function ...)
				}
				ok = false
				break
			}
		}
		include[i] = ok
	}
	declared := map[string]bool{}
	emitDecl := func(s string) {
		if d, ok := sl.decl[s]; ok && !declared[s] {
			declared[s] = true
			sb.WriteString(d)
			sb.WriteString("\n")
		}
	}
	// Definitions become define-fun macros in dependency order: no array-sorted equality atoms
	// (which would trigger extensionality reasoning) and full sharing inside the solver.
	var emitDef func(s string)
	state := map[string]int{}
	emitDef = func(s string) {
		i, isDef := sl.defOf[s]
		if !isDef || !include[i] {
			emitDecl(s)
			return
		}
		if state[s] != 0 {
			return
		}
		state[s] = 1
		for _, t := range sl.syms[i][1:] {
			if t != s {
				emitDef(t)
			}
		}
		d := sl.decl[s]
		k := strings.Index(d, " () ")
		if k < 0 || declared[s] || os.Getenv("VCHECK_NODEFINE") != "" {
			// not a plain constant (or already declared): keep it as an equation
			emitDecl(s)
			sb.WriteString("(assert ")
			sb.WriteString(sl.asserts[i])
			sb.WriteString(")\n")
			state[s] = 2
			return
		}
		sort := strings.TrimSuffix(d[k+4:], ")")
		a := sl.asserts[i]
		expr := a[len("(= "+s+" ") : len(a)-1]
		declared[s] = true
		sb.WriteString("(define-fun " + s + " () " + sort + " " + expr + ")\n")
		state[s] = 2
	}
	for i := range sl.asserts {
		if include[i] && sl.isDef[i] {
			emitDef(sl.syms[i][0])
		}
	}
	for i := range sl.asserts {
		if include[i] && !sl.isDef[i] {
			for _, t := range sl.syms[i] {
				emitDef(t)
			}
		}
	}
	for s := range need {
		emitDef(s)
	}
	for i, a := range sl.asserts {
		if include[i] && !sl.isDef[i] {
			sb.WriteString("(assert ")
			sb.WriteString(a)
			sb.WriteString(")\n")
		}
	}
	return sb.String()
}

// prelude renders declarations and facts. With full=false quantified facts are dropped:
// the weaker theory has more models, which is what model finding (counterexample
// candidates, reachability checks) needs; proofs always use the full prelude.
func (e *Enc) prelude(full bool) string {
	var sb strings.Builder
	sb.WriteString("(set-option :produce-models true)\n(set-logic ALL)\n")
	for _, d := range e.sortDecl {
		sb.WriteString(d)
		sb.WriteString("\n")
	}
	for _, d := range e.decls {
		sb.WriteString(d)
		sb.WriteString("\n")
	}
	for _, a := range e.asserts {
		if !full && strings.Contains(a, "(forall ") {
			continue
		}
		sb.WriteString("(assert ")
		sb.WriteString(a)
		sb.WriteString(")\n")
	}
	return sb.String()
}

func runSolver(s solverDef, file string, timeoutS int) (verdict string, out string, dur float64) {
	return runSolverCtx(context.Background(), s, file, timeoutS)
}

func runSolverCtx(parent context.Context, s solverDef, file string, timeoutS int) (verdict string, out string, dur float64) {
	args := s.args(file, timeoutS)
	ctx, cancel := context.WithTimeout(parent, time.Duration(timeoutS+5)*time.Second)
	defer cancel()
	cmd := exec.CommandContext(ctx, args[0], args[1:]...)
	var buf bytes.Buffer
	cmd.Stdout = &buf
	cmd.Stderr = &buf
	t0 := time.Now()
	_ = cmd.Run()
	dur = time.Since(t0).Seconds()
	out = buf.String()
	first := ""
	for _, ln := range strings.Split(out, "\n") {
		ln = strings.TrimSpace(ln)
		if ln == "" || strings.HasPrefix(ln, "WARNING") {
			continue
		}
		first = ln
		break
	}
	switch first {
	case "unsat", "sat", "unknown", "timeout":
		return first, out, dur
	}
	if ctx.Err() != nil || strings.Contains(out, "timeout") || strings.Contains(out, "interrupted") {
		return "timeout", out, dur
	}
	return "error", out, dur
}

type solveOpts struct {
	timeoutS int
	all      bool // thorough: every solver must not contradict
	dir      string
	keep     bool
}

// discharge runs the portfolio on one obligation.
func discharge(o *Obligation, prelude, weak string, opts solveOpts, idx int, interest []interestTerm, sl *slicer) {
	if sl != nil && os.Getenv("VCHECK_NOSLICE") == "" {
		t0 := time.Now()
		seeds := []string{o.Reach.S, o.Goal.S}
		prelude = sl.query(true, seeds...)
		weak = ""
		o.SliceTime = time.Since(t0).Seconds()
	}
	if o.Tainted != "" {
		o.Verdict = "unsupported"
		return
	}
	if o.Goal.S == "true" {
		o.Verdict = "unsat"
		o.Solver = "trivial"
		return
	}
	var sb strings.Builder
	sb.WriteString(prelude)
	sb.WriteString("(assert " + o.Reach.S + ")\n")
	sb.WriteString("(assert (not " + o.Goal.S + "))\n")
	sb.WriteString("(check-sat)\n")
	q := sb.String()
	o.Size = len(q)
	file := filepath.Join(opts.dir, fmt.Sprintf("o%05d.smt2", idx))
	if err := os.WriteFile(file, []byte(q), 0o644); err != nil {
		o.Verdict = "error"
		return
	}
	if !opts.keep {
		defer os.Remove(file)
	}
	verdicts := map[string]string{}
	if !opts.all && len(solvers) > 1 {
		// quick tier: a short attempt with the first solver, then all solvers race (the obligation is
		// decided by the first decisive answer; slow proofs are the unstable ones, a second engine
		// usually decides them at once)
		// staggered race: the first solver starts at once with the full budget; the others join after
		// a few seconds if it has not answered (most obligations are decided in milliseconds)
		type res struct {
			name, v, out string
			d            float64
		}
		ctx, cancel := context.WithCancel(context.Background())
		ch := make(chan res, len(solvers))
		run := func(sd solverDef) {
			v, out, d := runSolverCtx(ctx, sd, file, opts.timeoutS)
			ch <- res{sd.name, v, out, d}
		}
		go run(solvers[0])
		started := 1
		timer := time.NewTimer(3 * time.Second)
		got := 0
		var last res
		for got < started || started < len(solvers) {
			select {
			case <-timer.C:
				for _, sd := range solvers[1:] {
					go run(sd)
					started++
				}
			case r := <-ch:
				got++
				if r.v == "unsat" || r.v == "sat" {
					o.Verdict, o.Solver = r.v, r.name
					o.Time += r.d
					got = len(solvers) + 1
					started = len(solvers)
					break
				}
				if r.d >= last.d {
					last = r
				}
				if got == 1 && started == 1 {
					// the first solver gave up early: start the others now
					timer.Stop()
					for _, sd := range solvers[1:] {
						go run(sd)
						started++
					}
				}
			}
			if o.Verdict != "" {
				break
			}
		}
		timer.Stop()
		cancel()
		if o.Verdict == "" {
			o.Time += last.d
			o.Verdict = last.v
			if last.v == "error" {
				o.Model = last.out
			}
		}
	}
	for _, s := range solvers {
		if !opts.all && len(solvers) > 1 {
			break
		}
		v, out, d := runSolver(s, file, opts.timeoutS)
		o.Time += d
		verdicts[s.name] = v
		if v == "unsat" || v == "sat" {
			if o.Verdict == "" || o.Verdict == "unknown" || o.Verdict == "timeout" || o.Verdict == "error" {
				o.Verdict = v
				o.Solver = s.name
			} else if o.Verdict != v {
				o.Verdict = "conflict"
				o.Model = fmt.Sprintf("solvers disagree: %v", verdicts)
				return
			}
			if !opts.all {
				break
			}
			continue
		}
		if o.Verdict == "" {
			o.Verdict = v
			o.Solver = s.name
			if v == "error" {
				o.Model = out
			}
		}
	}
	if o.Verdict != "unsat" && o.Verdict != "conflict" {
		if sl != nil && weak == "" {
			seeds := []string{o.Reach.S, o.Goal.S}
			for _, it := range interest {
				seeds = append(seeds, it.T.S)
			}
			weak = sl.query(false, seeds...)
		}
		// look for a (candidate) counterexample in the quantifier-free weakening
		mfile := file + ".model.smt2"
		wq := weak + "(assert " + o.Reach.S + ")\n(assert (not " + o.Goal.S + "))\n(check-sat)\n"
		for _, it := range interest {
			wq += "(echo \"@@" + it.Name + "\")\n(get-value (" + it.T.S + "))\n"
		}
		wq += "(echo \"@@model\")\n(get-model)\n"
		os.WriteFile(mfile, []byte(wq), 0o644)
		v, out, d := runSolver(solvers[0], mfile, opts.timeoutS)
		o.Time += d
		switch v {
		case "unsat":
			// the weaker theory already refutes it: discharged
			o.Verdict, o.Solver = "unsat", solvers[0].name+"(qf)"
		case "sat":
			o.Verdict = "sat"
			o.Model = out
			o.Inputs = parseInputs(out)
		}
		if !opts.keep {
			os.Remove(mfile)
		}
	}
}

// checkReach asks whether a reach variable is satisfiable (vacuity guard).
func checkReach(reach Term, prelude string, opts solveOpts, idx int) string {
	if reach.S == "true" {
		return "sat"
	}
	if reach.S == "false" {
		return "unsat"
	}
	file := filepath.Join(opts.dir, fmt.Sprintf("r%05d.smt2", idx))
	q := prelude + "(assert " + reach.S + ")\n(check-sat)\n"
	os.WriteFile(file, []byte(q), 0o644)
	defer os.Remove(file)
	v, _, _ := runSolver(solvers[0], file, opts.timeoutS)
	return v
}

type job struct {
	o       *Obligation
	prelude *string
	weak    *string
	idx     int
	interest []interestTerm
	sl      *slicer
}

type interestTerm struct {
	Name string
	T    Term
}

func dischargeAll(jobs []job, opts solveOpts, workers int) {
	var wg sync.WaitGroup
	ch := make(chan job)
	for w := 0; w < workers; w++ {
		wg.Add(1)
		go func() {
			defer wg.Done()
			for j := range ch {
				discharge(j.o, *j.prelude, *j.weak, opts, j.idx, j.interest, j.sl)
			}
		}()
	}
	for _, j := range jobs {
		ch <- j
	}
	close(ch)
	wg.Wait()
}

// parseInputs extracts the (get-value ...) answers for the function's inputs from solver output.
func parseInputs(out string) map[string]string {
	m := map[string]string{}
	parts := strings.Split(out, "@@")
	for _, p := range parts[1:] {
		nl := strings.Index(p, "\n")
		if nl < 0 {
			continue
		}
		name := strings.Trim(strings.TrimSpace(p[:nl]), "\"")
		if name == "model" {
			break
		}
		val := strings.TrimSpace(p[nl+1:])
		// ((term value))
		val = strings.TrimSuffix(strings.TrimPrefix(val, "(("), "))")
		// drop the echoed term: value is the last s-expression
		val = lastSexp(val)
		m[name] = val
	}
	return m
}

func lastSexp(s string) string {
	s = strings.TrimSpace(s)
	if s == "" {
		return s
	}
	if s[len(s)-1] != ')' {
		i := strings.LastIndexAny(s, " \n")
		return s[i+1:]
	}
	depth := 0
	for i := len(s) - 1; i >= 0; i-- {
		switch s[i] {
		case ')':
			depth++
		case '(':
			depth--
			if depth == 0 {
				return s[i:]
			}
		}
	}
	return s
}
