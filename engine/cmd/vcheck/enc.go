package main

// Encoder core: symbolic values, heap components, lazily resolved heap states.

import (
	"fmt"
	"go/token"
	"go/types"
	"strings"

	"golang.org/x/tools/go/ssa"
)

// ---------- values ----------

type Val interface{}

type SliceV struct{ Base, Off, Len, Cap Term }
type StructV struct {
	T      types.Type
	Fields []Val
}
type TupleV []Val
type ClosureV struct {
	Fn       *ssa.Function
	Bindings []Val
}

// FieldPtr is the address of a scalar struct field. It may only be loaded from / stored to.
type FieldPtr struct {
	Ref   Term
	S     types.Type // struct type (named or not)
	Field int
}

// ---------- obligations ----------

type Obligation struct {
	Name    string
	Kind    string
	Fn      string
	Reach   Term
	Goal    Term
	Pos     token.Pos
	Props   []string
	Tainted string // non-empty: could not be encoded, counts as undischarged
	Bounded int
	Src     string
	// results
	Verdict string // unsat (discharged), sat, unknown, timeout, unsupported
	Solver  string
	Time    float64
	Model   string
	Size    int
	Vacuous bool
	replayed bool
	Inputs   map[string]string
	SliceTime float64
}

// ---------- heap components and states ----------

type Comp struct {
	Name    string
	Sort    Sort       // sort of the whole component (array or scalar for ghosts)
	ValType types.Type // Go type of the stored leaf (for typing facts), may be nil
	Leaf    string
	Scalar  bool // ghost scalar
	IfaceIdx bool // first index is an interface value
	Repo    bool // field of a struct type defined in the repo module
	MapValT types.Type // for map value components: Go type of the stored leaf
}

type epochKind int

const (
	epInit epochKind = iota
	epHavoc
	epMerge
)

type epParent struct {
	cond Term
	st   *State
}

type Epoch struct {
	id      int
	kind    epochKind
	parents []epParent         // epMerge: conditions + states; epHavoc: single parent
	keep    func(c *Comp) bool // epHavoc: components NOT havocked (looked up in parent); nil = havoc all
	freshOnly func(c *Comp) bool // epHavoc: havocked components whose pre-existing objects are untouched
	older   Term // allocation counter before the havoc (objects with rootof < older are "pre-existing")
	memo    map[string]Term
	alloc   Term // allocation counter at creation
}

type State struct {
	H     map[string]Term
	Base  *Epoch
	Alloc Term
}

func (s *State) clone() *State {
	n := &State{H: make(map[string]Term, len(s.H)), Base: s.Base, Alloc: s.Alloc}
	for k, v := range s.H {
		n.H[k] = v
	}
	return n
}

type originInfo struct {
	base  Term
	bound Term
}

type Enc struct {
	patOf map[string]Term
	defOf map[string]string // defined name -> defining term
	wsInsStack []ssa.Instruction
	fvFree    map[*ssa.FreeVar]ssa.Value
	wsStack   []string
	wsWhyDone bool
	fvBind   map[*ssa.Parameter]ssa.Value // write-set traversal: function-typed parameters bound by the current call chain
	fvActive map[*ssa.Function]int
	wsCall *ssa.CallCommon // call whose contract write set is being computed (static argument types)
	lastAllBut map[string]bool
	origin   map[string]originInfo
	P        *Program
	DB       *SpecDB
	R        *Resolver
	sorts    map[string]bool
	sortDecl []string
	decls    []string
	asserts  []string
	declared map[string]bool
	comps    map[string]*Comp
	ctr      int
	epochCtr int
	obls     []*Obligation
	abstracted map[string]bool
	trustedUsed map[string]bool
	axiomsUsed map[string]bool
	budget   int
	topFn    *ssa.Function
	topSpec  *FuncSpec
	strLits  map[string]Term
	typeTags map[string]int
	subFuns  map[string]bool
	globals  map[*ssa.Global]Term
	consts   map[string]Term
	inlineStack []*ssa.Function
	curProps []string
	nopanic  bool
	specDepth int
}

func newEnc(P *Program, db *SpecDB, r *Resolver) *Enc {
	e := &Enc{origin: map[string]originInfo{}, P: P, DB: db, R: r, sorts: map[string]bool{}, declared: map[string]bool{}, comps: map[string]*Comp{},
		abstracted: map[string]bool{}, trustedUsed: map[string]bool{}, axiomsUsed: map[string]bool{}, budget: 60000,
		strLits: map[string]Term{}, typeTags: map[string]int{}, subFuns: map[string]bool{}, globals: map[*ssa.Global]Term{}, consts: map[string]Term{}}
	e.sortDecl = append(e.sortDecl, "(declare-sort Str 0)")
	e.decls = append(e.decls,
		"(declare-fun strlen (Str) Int)",
		"(declare-fun elemref (Int Int) Int)",
		"(declare-fun elembase (Int) Int)",
		"(declare-fun elemidx (Int) Int)",
		"(declare-fun rtag (Int) Int)",
		"(declare-fun rootof (Int) Int)",
		"(declare-fun dyntype (Int) Int)",
		"(declare-fun ifacepl (Int) Int)",
		"(declare-fun mkiface (Int Int) Int)",
		"(declare-fun arrslice (Int) Int)",
		"(declare-fun idxadd (Int Int) Int)",
	)
	e.asserts = append(e.asserts,
		"(forall ((s Str)) (! (>= (strlen s) 0) :pattern ((strlen s))))",
		"(forall ((b Int) (i Int)) (! (and (= (elembase (elemref b i)) b) (= (elemidx (elemref b i)) i) (< (elemref b i) 0) (= (rtag (elemref b i)) 1) (= (rootof (elemref b i)) (rootof b))) :pattern ((elemref b i))))",
		"(forall ((o Int) (i Int)) (! (= (idxadd o i) (+ o i)) :pattern ((idxadd o i))))",
		"(forall ((t Int) (p Int)) (! (and (not (= (mkiface t p) 0)) (= (dyntype (mkiface t p)) t) (= (ifacepl (mkiface t p)) p)) :pattern ((mkiface t p))))",
		"(forall ((p Int)) (! (and (< (arrslice p) 0) (= (rtag (arrslice p)) 2) (= (rootof (arrslice p)) (rootof p))) :pattern ((arrslice p))))",
		"(forall ((p Int)) (! (=> (> p 0) (= (rootof p) p)) :pattern ((rootof p))))",
		"(= (rootof 0) 0)",
		// element references are exactly the references tagged 1: their root is their array's root
		"(forall ((p Int)) (! (=> (= (rtag p) 1) (= (rootof p) (rootof (elembase p)))) :pattern ((elembase p))))",
		"(forall ((p Int)) (! (=> (>= p 0) (= (rtag p) 0)) :pattern ((rtag p))))",
	)
	empty := e.strLit("")
	e.asserts = append(e.asserts, fmt.Sprintf("(forall ((s Str)) (! (=> (= (strlen s) 0) (= s %s)) :pattern ((strlen s))))", empty.S))
	return e
}

func (e *Enc) fresh(hint string) string {
	e.ctr++
	return fmt.Sprintf("|%s#%d|", strings.NewReplacer("|", "!", "\\", "!").Replace(hint), e.ctr)
}

func (e *Enc) declareConst(name string, s Sort) Term {
	e.needSort(s)
	e.decls = append(e.decls, fmt.Sprintf("(declare-fun %s () %s)", name, s))
	return Term{name, s}
}

func (e *Enc) freshConst(hint string, s Sort) Term {
	return e.declareConst(e.fresh(hint), s)
}

// define introduces a named constant equal to t (keeps formulas DAG-shaped).
func (e *Enc) define(hint string, t Term) Term {
	if len(t.S) < 40 && !strings.HasPrefix(t.S, "(") {
		return t
	}
	if strings.Contains(t.S, "|q.") {
		return t // mentions a bound variable: cannot be named globally
	}
	c := e.freshConst(hint, t.Sort)
	e.asserts = append(e.asserts, fmt.Sprintf("(= %s %s)", c.S, t.S))
	if e.defOf == nil {
		e.defOf = map[string]string{}
	}
	e.defOf[c.S] = t.S
	return c
}

// patConst: a declared constant equal to t, for use inside quantifier patterns (defined names are
// expanded as macros in the queries and may contain ite/and, which patterns must not).
func (e *Enc) patConst(t Term) Term {
	if _, isDef := e.defOf[t.S]; !isDef && !strings.HasPrefix(t.S, "(") {
		return t
	}
	if c, ok := e.patOf[t.S]; ok {
		return c
	}
	c := e.freshConst("pat", t.Sort)
	e.asserts = append(e.asserts, fmt.Sprintf("(= %s %s)", wrapNoDef(t.S), c.S))
	if e.patOf == nil {
		e.patOf = map[string]Term{}
	}
	e.patOf[t.S] = c
	return c
}

// wrapNoDef keeps "(= x c)" from being read as a definition of x.
func wrapNoDef(s string) string {
	if strings.HasPrefix(s, "|") {
		return "(+ 0 " + s + ")"
	}
	return s
}

func (e *Enc) defineAlways(hint string, t Term) Term {
	c := e.freshConst(hint, t.Sort)
	e.asserts = append(e.asserts, fmt.Sprintf("(= %s %s)", c.S, t.S))
	return c
}

func (e *Enc) fact(t Term) {
	if t.S == "true" {
		return
	}
	if strings.Contains(t.S, "|q.") && !strings.HasPrefix(t.S, "(forall") && !strings.HasPrefix(t.S, "(exists") {
		return // side fact about a term under a quantifier: not expressible globally
	}
	e.asserts = append(e.asserts, t.S)
}

func (e *Enc) needSort(s Sort) {
	str := string(s)
	if str == "Int" || str == "Bool" || str == "Str" || strings.HasPrefix(str, "(_ ") {
		return
	}
	if isArr(s) {
		a, b := arrParts(s)
		e.needSort(a)
		e.needSort(b)
		return
	}
	if !e.sorts[str] {
		e.sorts[str] = true
		e.sortDecl = append(e.sortDecl, fmt.Sprintf("(declare-sort %s 0)", str))
	}
}

func (e *Enc) declFun(name string, args []Sort, res Sort) {
	if e.declared[name] {
		return
	}
	e.declared[name] = true
	var as []string
	for _, a := range args {
		e.needSort(a)
		as = append(as, string(a))
	}
	e.needSort(res)
	e.decls = append(e.decls, fmt.Sprintf("(declare-fun %s (%s) %s)", name, strings.Join(as, " "), res))
}

// ---------- types ----------

func typeKey(t types.Type) string {
	return types.TypeString(t, func(p *types.Package) string { return p.Path() })
}

func isRepoType(t types.Type) bool {
	if n, ok := t.(*types.Named); ok {
		if n.Obj().Pkg() != nil && strings.HasPrefix(n.Obj().Pkg().Path(), modPath) {
			return true
		}
	}
	return false
}

type unsupported struct {
	why    string
	hazard bool
}

// unsup: construct outside the modelled subset; the caller havocs (sound).
func (e *Enc) unsup(f string, a ...interface{}) {
	panic(unsupported{why: fmt.Sprintf(f, a...)})
}

// hazard: construct whose havoc abstraction could be unsound (hidden aliasing); taints.
func (e *Enc) hazard(f string, a ...interface{}) {
	panic(unsupported{why: fmt.Sprintf(f, a...), hazard: true})
}

// scalarSort returns the SMT sort for scalar-like Go types.
func (e *Enc) scalarSort(t types.Type) (Sort, bool) {
	switch u := t.Underlying().(type) {
	case *types.Basic:
		switch {
		case u.Info()&types.IsInteger != 0:
			return SInt, true
		case u.Info()&types.IsBoolean != 0:
			return SBool, true
		case u.Info()&types.IsString != 0:
			return SStr, true
		case u.Kind() == types.Float32:
			return SF32, true
		case u.Kind() == types.Float64 || u.Kind() == types.UntypedFloat:
			return SF64, true
		case u.Kind() == types.UnsafePointer || u.Kind() == types.UntypedNil:
			return SInt, true
		}
		return "", false
	case *types.Pointer, *types.Map, *types.Chan, *types.Signature, *types.Interface:
		return SInt, true
	case *types.Array:
		s := Sort("|Arr " + typeKey(u) + "|")
		e.needSort(s)
		return s, true
	}
	return "", false
}

type leaf struct {
	path string
	sort Sort
	typ  types.Type
}

// leaves flattens a value type into scalar leaves.
func (e *Enc) leaves(t types.Type) []leaf {
	if s, ok := e.scalarSort(t); ok {
		return []leaf{{"", s, t}}
	}
	switch u := t.Underlying().(type) {
	case *types.Slice:
		return []leaf{{".base", SInt, nil}, {".off", SInt, nil}, {".len", SInt, nil}, {".cap", SInt, nil}}
	case *types.Struct:
		var ls []leaf
		for i := 0; i < u.NumFields(); i++ {
			for _, l := range e.leaves(u.Field(i).Type()) {
				ls = append(ls, leaf{"." + u.Field(i).Name() + l.path, l.sort, l.typ})
			}
		}
		return ls
	case *types.Tuple:
		var ls []leaf
		for i := 0; i < u.Len(); i++ {
			for _, l := range e.leaves(u.At(i).Type()) {
				ls = append(ls, leaf{fmt.Sprintf(".%d%s", i, l.path), l.sort, l.typ})
			}
		}
		return ls
	}
	e.unsup("type %s", t)
	return nil
}

func (e *Enc) flatten(v Val) []Term {
	switch v := v.(type) {
	case Term:
		return []Term{v}
	case SliceV:
		return []Term{v.Base, v.Off, v.Len, v.Cap}
	case StructV:
		var ts []Term
		for _, f := range v.Fields {
			ts = append(ts, e.flatten(f)...)
		}
		return ts
	case TupleV:
		var ts []Term
		for _, f := range v {
			ts = append(ts, e.flatten(f)...)
		}
		return ts
	}
	e.unsup("cannot flatten %T", v)
	return nil
}

func (e *Enc) unflatten(t types.Type, ts []Term) (Val, []Term) {
	if _, ok := e.scalarSort(t); ok {
		return ts[0], ts[1:]
	}
	switch u := t.Underlying().(type) {
	case *types.Slice:
		return SliceV{ts[0], ts[1], ts[2], ts[3]}, ts[4:]
	case *types.Struct:
		sv := StructV{T: t}
		for i := 0; i < u.NumFields(); i++ {
			var f Val
			f, ts = e.unflatten(u.Field(i).Type(), ts)
			sv.Fields = append(sv.Fields, f)
		}
		return sv, ts
	case *types.Tuple:
		var tv TupleV
		for i := 0; i < u.Len(); i++ {
			var f Val
			f, ts = e.unflatten(u.At(i).Type(), ts)
			tv = append(tv, f)
		}
		return tv, ts
	}
	e.unsup("unflatten %s", t)
	return nil, nil
}

// typingFact returns the constraint every value of Go type t satisfies (for scalars).
func (e *Enc) typingFact(t types.Type, v Term, alloc Term) Term {
	if t == nil {
		return tTrue
	}
	switch u := t.Underlying().(type) {
	case *types.Basic:
		if lo, hi, ok := intRange(u); ok {
			return tAnd(tLe(tBig(lo), v), tLe(v, tBig(hi)))
		}
	case *types.Pointer, *types.Map, *types.Chan:
		if alloc.S != "" {
			// the reference exists already, and so does the object it points into (an interior
			// pointer is a negative reference whose root is the enclosing object)
			return tAnd(tLt(v, alloc), tLt(app(SInt, "rootof", v), alloc))
		}
	case *types.Interface:
		// the object an interface value points to exists already
		if alloc.S != "" {
			return tLt(app(SInt, "ifacepl", v), alloc)
		}
	}
	return tTrue
}

// freshVal creates an unconstrained value of type t with its typing facts.
func (e *Enc) freshVal(t types.Type, hint string, alloc Term) Val {
	if s, ok := e.scalarSort(t); ok {
		c := e.freshConst(hint, s)
		e.fact(e.typingFact(t, c, alloc))
		return c
	}
	switch u := t.Underlying().(type) {
	case *types.Slice:
		sv := SliceV{e.freshConst(hint+".base", SInt), e.freshConst(hint+".off", SInt), e.freshConst(hint+".len", SInt), e.freshConst(hint+".cap", SInt)}
		e.fact(e.sliceFact(sv, alloc))
		return sv
	case *types.Struct:
		sv := StructV{T: t}
		for i := 0; i < u.NumFields(); i++ {
			sv.Fields = append(sv.Fields, e.freshVal(u.Field(i).Type(), hint+"."+u.Field(i).Name(), alloc))
		}
		return sv
	case *types.Tuple:
		var tv TupleV
		for i := 0; i < u.Len(); i++ {
			tv = append(tv, e.freshVal(u.At(i).Type(), fmt.Sprintf("%s.%d", hint, i), alloc))
		}
		return tv
	}
	e.unsup("fresh value of type %s", t)
	return nil
}

const maxLen = "4611686018427387904" // 2^62

func (e *Enc) sliceFact(sv SliceV, alloc Term) Term {
	f := tAnd(tLe(tInt(0), sv.Off), tLe(tInt(0), sv.Len), tLe(sv.Len, sv.Cap), tLe(sv.Cap, Term{maxLen, SInt}), tLe(sv.Off, Term{maxLen, SInt}),
		tImp(tEq(sv.Base, tInt(0)), tAnd(tEq(sv.Cap, tInt(0)), tEq(sv.Off, tInt(0)))))
	if alloc.S != "" {
		// the backing array exists already (a base is an array object or a view into one)
		f = tAnd(f, tLt(sv.Base, alloc), tLt(app(SInt, "rootof", sv.Base), alloc))
	}
	return f
}

func (e *Enc) zeroVal(t types.Type) Val {
	if s, ok := e.scalarSort(t); ok {
		switch s {
		case SInt:
			return tInt(0)
		case SBool:
			return tFalse
		case SStr:
			return e.strLit("")
		case SF32:
			return Term{"(_ +zero 8 24)", SF32}
		case SF64:
			return Term{"(_ +zero 11 53)", SF64}
		}
		// arrays: a distinguished zero constant per sort
		name := "|zero " + string(s)[1:]
		if !e.declared[name] {
			e.declared[name] = true
			e.decls = append(e.decls, fmt.Sprintf("(declare-fun %s () %s)", name, s))
		}
		return Term{name, s}
	}
	switch u := t.Underlying().(type) {
	case *types.Slice:
		return SliceV{tInt(0), tInt(0), tInt(0), tInt(0)}
	case *types.Struct:
		sv := StructV{T: t}
		for i := 0; i < u.NumFields(); i++ {
			sv.Fields = append(sv.Fields, e.zeroVal(u.Field(i).Type()))
		}
		return sv
	case *types.Tuple:
		var tv TupleV
		for i := 0; i < u.Len(); i++ {
			tv = append(tv, e.zeroVal(u.At(i).Type()))
		}
		return tv
	}
	e.unsup("zero value of %s", t)
	return nil
}

func (e *Enc) strLit(s string) Term {
	if t, ok := e.strLits[s]; ok {
		return t
	}
	c := e.freshConst(fmt.Sprintf("str:%.20q", s), SStr)
	e.fact(tEq(app(SInt, "strlen", c), tInt(int64(len(s)))))
	for _, o := range e.strLits {
		e.fact(tNot(tEq(c, o)))
	}
	e.strLits[s] = c
	return c
}

func (e *Enc) typeTag(t types.Type) Term {
	k := typeKey(t)
	if n, ok := e.typeTags[k]; ok {
		return tInt(int64(n))
	}
	n := len(e.typeTags) + 1
	e.typeTags[k] = n
	return tInt(int64(n))
}

// valIte merges two values of the same shape.
func (e *Enc) closureRef(c ClosureV) Term {
	if len(c.Bindings) == 0 {
		return e.funcRef(c.Fn)
	}
	// an opaque non-nil function value (calls through it are havocked)
	r := e.freshConst("closure", SInt)
	e.fact(tLt(tInt(0), r))
	return r
}

func (e *Enc) valIte(c Term, a, b Val) Val {
	if ca, ok := a.(ClosureV); ok {
		if _, isT := b.(Term); isT {
			a = e.closureRef(ca)
		}
	}
	if cb, ok := b.(ClosureV); ok {
		if _, isT := a.(Term); isT {
			b = e.closureRef(cb)
		}
	}
	switch a := a.(type) {
	case Term:
		bt, ok := b.(Term)
		if !ok {
			e.unsup("merge of mismatched values %T %T", a, b)
		}
		return tIte(c, a, bt)
	case SliceV:
		bs, ok := b.(SliceV)
		if !ok {
			e.unsup("merge of mismatched values")
		}
		return SliceV{tIte(c, a.Base, bs.Base), tIte(c, a.Off, bs.Off), tIte(c, a.Len, bs.Len), tIte(c, a.Cap, bs.Cap)}
	case StructV:
		bs, ok := b.(StructV)
		if !ok || len(bs.Fields) != len(a.Fields) {
			e.unsup("merge of mismatched values")
		}
		r := StructV{T: a.T}
		for i := range a.Fields {
			r.Fields = append(r.Fields, e.valIte(c, a.Fields[i], bs.Fields[i]))
		}
		return r
	case TupleV:
		bs, ok := b.(TupleV)
		if !ok || len(bs) != len(a) {
			e.unsup("merge of mismatched values")
		}
		var r TupleV
		for i := range a {
			r = append(r, e.valIte(c, a[i], bs[i]))
		}
		return r
	case ClosureV:
		if bc, ok := b.(ClosureV); ok && bc.Fn == a.Fn {
			r := ClosureV{Fn: a.Fn}
			for i := range a.Bindings {
				r.Bindings = append(r.Bindings, e.valIte(c, a.Bindings[i], bc.Bindings[i]))
			}
			return r
		}
	case nil:
		if b == nil {
			return nil
		}
	}
	e.unsup("merge of values %T / %T", a, b)
	return nil
}

func (e *Enc) nameVal(hint string, v Val) Val {
	switch v := v.(type) {
	case Term:
		return e.define(hint, v)
	case SliceV:
		return SliceV{e.define(hint+".base", v.Base), e.define(hint+".off", v.Off), e.define(hint+".len", v.Len), e.define(hint+".cap", v.Cap)}
	case StructV:
		r := StructV{T: v.T}
		for i, f := range v.Fields {
			r.Fields = append(r.Fields, e.nameVal(fmt.Sprintf("%s.%d", hint, i), f))
		}
		return r
	case TupleV:
		var r TupleV
		for i, f := range v {
			r = append(r, e.nameVal(fmt.Sprintf("%s.%d", hint, i), f))
		}
		return r
	}
	return v
}

// valEq builds equality of two values of the same shape.
func (e *Enc) valEq(a, b Val) Term {
	fa, fb := e.flatten(a), e.flatten(b)
	if len(fa) != len(fb) {
		e.unsup("equality of mismatched values")
	}
	var cs []Term
	for i := range fa {
		cs = append(cs, tEq(fa[i], fb[i]))
	}
	return tAnd(cs...)
}

// ---------- heap components ----------

func (e *Enc) comp(name string, sort Sort, valType types.Type, repo bool) *Comp {
	if c, ok := e.comps[name]; ok {
		return c
	}
	e.needSort(sort)
	c := &Comp{Name: name, Sort: sort, ValType: valType, Repo: repo}
	e.comps[name] = c
	return c
}

func structKey(t types.Type) string { return typeKey(t) }

func structOf(t types.Type) *types.Struct {
	s, _ := t.Underlying().(*types.Struct)
	return s
}

// fieldComp returns the component holding leaf l of scalar/slice field i of struct type S.
func (e *Enc) fieldComp(S types.Type, i int, l leaf) *Comp {
	st := structOf(S)
	name := "F " + structKey(S) + " " + st.Field(i).Name() + l.path
	c := e.comp(name, arrSort(SInt, l.sort), l.typ, isRepoType(S))
	return c
}

func (e *Enc) cellComp(t types.Type, l leaf) *Comp {
	name := "C " + typeKey(t.Underlying()) + l.path
	if n, ok := t.(*types.Named); ok {
		// cells of named non-struct types are keyed by underlying type (conversions keep identity)
		_ = n
	}
	return e.comp(name, arrSort(SInt, l.sort), l.typ, false)
}

func (e *Enc) bigvalComp() *Comp {
	return e.comp("bigval", arrSort(SInt, SInt), nil, false)
}

func (e *Enc) mapKeySort(m *types.Map) Sort {
	s, ok := e.scalarSort(m.Key())
	if !ok {
		e.unsup("map key type %s", m.Key())
	}
	return s
}

func (e *Enc) mapValComp(m *types.Map, l leaf) *Comp {
	ks := e.mapKeySort(m)
	c := e.comp("MV "+typeKey(m)+l.path, arrSort(SInt, arrSort(ks, l.sort)), nil, false)
	c.MapValT = l.typ
	return c
}

func (e *Enc) mapHasComp(m *types.Map) *Comp {
	ks := e.mapKeySort(m)
	return e.comp("MH "+typeKey(m), arrSort(SInt, arrSort(ks, SBool)), nil, false)
}

func (e *Enc) mapLenComp(m *types.Map) *Comp {
	return e.comp("ML "+typeKey(m), arrSort(SInt, SInt), types.Typ[types.Int], false)
}

func (e *Enc) ghostComp(g *GhostVar, pkg *types.Package) *Comp {
	name := "G " + g.Name
	if c, ok := e.comps[name]; ok {
		return c
	}
	s := SInt
	switch g.Type {
	case "int":
		s = SInt
	case "bool":
		s = SBool
	default:
		e.unsup("ghost type %s", g.Type)
	}
	c := e.comp(name, s, nil, true)
	c.Scalar = true
	return c
}

// ghostFnComp: a ghost function is a heap component indexed by its parameters.
func (e *Enc) ghostFnComp(g *SpecFunc, c *SpecCtx) (*Comp, []types.Type, types.Type) {
	name := "GF " + g.Name
	tc := c
	if g.PkgPath != "" && e.P.ByPath[g.PkgPath] != nil {
		tc = &SpecCtx{e: e, pkg: e.P.ByPath[g.PkgPath].Types}
	} else if g.PkgPath == "" {
		tc = &SpecCtx{e: e}
	}
	var pts []types.Type
	for _, p := range g.Params {
		pts = append(pts, tc.resolveType(p.Type))
	}
	var rt types.Type
	if g.Result == "bool" {
		rt = types.Typ[types.Bool]
	} else {
		rt = tc.resolveType(g.Result)
	}
	if cp, ok := e.comps[name]; ok {
		return cp, pts, rt
	}
	sortOf := func(t types.Type) Sort {
		if t == mathInt {
			return SInt
		}
		s, ok := e.scalarSort(t)
		if !ok {
			e.unsup("ghost function %s: composite type %s", g.Name, t)
		}
		return s
	}
	srt := sortOf(rt)
	for i := len(pts) - 1; i >= 0; i-- {
		srt = arrSort(sortOf(pts[i]), srt)
	}
	// ghost functions declared by repository contract files are not changed by external code
	cp := e.comp(name, srt, nil, g.PkgPath != "")
	if len(pts) == 0 {
		cp.Scalar = true
	} else if _, isIface := pts[0].Underlying().(*types.Interface); isIface {
		cp.IfaceIdx = true
	}
	return cp, pts, rt
}

func (e *Enc) subRef(S types.Type, i int, ref Term) Term {
	st := structOf(S)
	fn := "|sub " + structKey(S) + " " + st.Field(i).Name() + "|"
	if !e.subFuns[fn] {
		e.subFuns[fn] = true
		inv := "|subinv " + structKey(S) + " " + st.Field(i).Name() + "|"
		e.decls = append(e.decls, fmt.Sprintf("(declare-fun %s (Int) Int)", fn), fmt.Sprintf("(declare-fun %s (Int) Int)", inv))
		tag := 10 + len(e.subFuns)
		e.asserts = append(e.asserts, fmt.Sprintf("(forall ((p Int)) (! (and (= (%s (%s p)) p) (< (%s p) 0) (= (rtag (%s p)) %d) (= (rootof (%s p)) (rootof p))) :pattern ((%s p))))", inv, fn, fn, fn, tag, fn, fn))
	}
	return app(SInt, fn, ref)
}

// newEpochInit creates the initial state.
func (e *Enc) initState() *State {
	alloc := e.freshConst("alloc0", SInt)
	e.fact(tLt(tInt(1000), alloc))
	ep := &Epoch{id: 0, kind: epInit, memo: map[string]Term{}, alloc: alloc}
	return &State{H: map[string]Term{}, Base: ep, Alloc: alloc}
}

// compTypingFact: quantified fact that every cell of a fresh component version is well typed.
func (e *Enc) compTypingFact(c *Comp, v Term, alloc Term) {
	if strings.HasPrefix(c.Name, "MV ") {
		// references stored in a map denote objects that exist already
		if c.MapValT != nil && alloc.S != "" {
			switch c.MapValT.Underlying().(type) {
			case *types.Pointer, *types.Map, *types.Chan:
				_, inner := arrParts(c.Sort)
				ks, _ := arrParts(inner)
				// (only for maps that exist: the cells of an object allocated later are written by whoever allocates it)
				e.fact(Term{fmt.Sprintf("(forall ((m Int) (k %s)) (! (=> (< (rootof m) %s) (and (< (select (select %s m) k) %s) (< (rootof (select (select %s m) k)) %s))) :pattern ((select (select %s m) k))))", ks, alloc.S, v.S, alloc.S, v.S, alloc.S, v.S), SBool})
			}
		}
		return
	}
	if c.Scalar || c.ValType == nil {
		// slice header shapes are asserted as ground facts at every load (shapeFacts)
		if strings.HasSuffix(c.Name, ".base") && !strings.HasPrefix(c.Name, "MV ") {
			e.fact(Term{fmt.Sprintf("(forall ((p Int)) (! (=> (< (rootof p) %s) (and (< (select %s p) %s) (< (rootof (select %s p)) %s))) :pattern ((select %s p))))", alloc.S, v.S, alloc.S, v.S, alloc.S, v.S), SBool})
		}
		return
	}
	if strings.HasPrefix(c.Name, "MV ") {
		return
	}
	if isInteger(c.ValType) {
		return // integer ranges are asserted as ground facts at every load (shapeFactsT)
	}
	f := e.typingFact(c.ValType, Term{"(select " + v.S + " p)", SInt}, alloc)
	if f.S == "true" {
		return
	}
	// a cell of an object that does not exist yet holds no typed value: whoever allocates the object
	// writes it (a callee's postcondition may speak about the fields of its fresh results)
	if alloc.S != "" {
		e.fact(Term{fmt.Sprintf("(forall ((p Int)) (! (=> (< (rootof p) %s) %s) :pattern ((select %s p))))", alloc.S, f.S, v.S), SBool})
		return
	}
	e.fact(Term{fmt.Sprintf("(forall ((p Int)) (! %s :pattern ((select %s p))))", f.S, v.S), SBool})
}

func (e *Enc) epochLookup(ep *Epoch, c *Comp) Term {
	if t, ok := ep.memo[c.Name]; ok {
		return t
	}
	var t Term
	switch ep.kind {
	case epInit:
		t = e.declareConst(fmt.Sprintf("|%s@0|", c.Name), c.Sort)
		e.compTypingFact(c, t, ep.alloc)
	case epHavoc:
		if ep.keep != nil && ep.keep(c) {
			t = e.lookup(ep.parents[0].st, c)
		} else {
			t = e.declareConst(fmt.Sprintf("|%s@h%d|", c.Name, ep.id), c.Sort)
			e.compTypingFact(c, t, ep.alloc)
			if ep.freshOnly != nil && ep.freshOnly(c) && !c.Scalar && isArr(c.Sort) {
				if is, _ := arrParts(c.Sort); is == SInt {
					old := e.lookup(ep.parents[0].st, c)
					// link to the origin of a run of fresh-only havocs directly (no chain to walk):
					// objects older than the run's start are exactly as in the version the run started from
					base, bound := old, ep.older
					if og, ok := e.origin[old.S]; ok {
						base, bound = og.base, og.bound
					}
					e.fact(Term{fmt.Sprintf("(forall ((r Int)) (! (=> (< (rootof r) %s) (= (select %s r) (select %s r))) :pattern ((select %s r))))", bound.S, t.S, base.S, t.S), SBool})
					e.origin[t.S] = originInfo{base, bound}
				}
			}
		}
	case epMerge:
		// ite chain over parents
		var vals []Term
		same := true
		for _, p := range ep.parents {
			v := e.lookup(p.st, c)
			vals = append(vals, v)
			if v.S != vals[0].S {
				same = false
			}
		}
		if same {
			t = vals[0]
		} else {
			acc := vals[len(vals)-1]
			for i := len(vals) - 2; i >= 0; i-- {
				acc = tIte(ep.parents[i].cond, vals[i], acc)
			}
			t = e.defineAlways(fmt.Sprintf("%s@m%d", c.Name, ep.id), acc)
		}
	}
	ep.memo[c.Name] = t
	return t
}

func (e *Enc) lookup(st *State, c *Comp) Term {
	if t, ok := st.H[c.Name]; ok {
		return t
	}
	return e.epochLookup(st.Base, c)
}

func (e *Enc) update(st *State, c *Comp, t Term) {
	st.H[c.Name] = e.define(c.Name+"'", t)
}

// havocState returns a new state in which every component for which keep returns false is fresh.
func (e *Enc) havocState(st *State, keep func(c *Comp) bool) *State {
	return e.havocState2(st, keep, nil)
}

func (e *Enc) havocState2(st *State, keep func(c *Comp) bool, freshOnly func(c *Comp) bool) *State {
	e.epochCtr++
	na := e.freshConst("alloc", SInt)
	e.fact(tLe(st.Alloc, na))
	ep := &Epoch{id: e.epochCtr, kind: epHavoc, parents: []epParent{{tTrue, st}}, keep: keep, freshOnly: freshOnly, older: st.Alloc, memo: map[string]Term{}, alloc: na}
	return &State{H: map[string]Term{}, Base: ep, Alloc: na}
}

func (e *Enc) mergeStates(ps []epParent) *State {
	if len(ps) == 1 {
		return ps[0].st.clone()
	}
	e.epochCtr++
	allocs := ps[len(ps)-1].st.Alloc
	for i := len(ps) - 2; i >= 0; i-- {
		allocs = tIte(ps[i].cond, ps[i].st.Alloc, allocs)
	}
	alloc := e.define("alloc", allocs)
	ep := &Epoch{id: e.epochCtr, kind: epMerge, parents: ps, memo: map[string]Term{}, alloc: alloc}
	return &State{H: map[string]Term{}, Base: ep, Alloc: alloc}
}

// ---------- memory access ----------

func (e *Enc) isStructT(t types.Type) bool {
	_, ok := t.Underlying().(*types.Struct)
	return ok
}

// subObj: fields of struct or array type are addressable sub-objects (their address is a proper
// reference, sub(S,f,p)); other fields live in per-field components.
func (e *Enc) subObj(t types.Type) bool {
	switch t.Underlying().(type) {
	case *types.Struct, *types.Array:
		return true
	}
	return false
}

func (e *Enc) isBigInt(t types.Type) bool {
	if n, ok := t.(*types.Named); ok {
		return n.Obj().Pkg() != nil && n.Obj().Pkg().Path() == "math/big" && n.Obj().Name() == "Int"
	}
	return false
}

func (e *Enc) opaqueStruct(t types.Type) bool {
	// external struct types are not modelled field by field
	if n, ok := t.(*types.Named); ok {
		if _, isS := n.Underlying().(*types.Struct); isS && !isRepoType(t) {
			return true
		}
	}
	return false
}

// loadAt reads a value of type t stored at reference ref.
func (e *Enc) loadAt(st *State, ref Term, t types.Type) Val {

	if s := structOf(t); s != nil {
		sv := StructV{T: t}
		for i := 0; i < s.NumFields(); i++ {
			sv.Fields = append(sv.Fields, e.loadField(st, ref, t, i))
		}
		return sv
	}
	var ts []Term
	for _, l := range e.leaves(t) {
		c := e.cellComp(t, l)
		ts = append(ts, tSelect(e.lookup(st, c), ref))
	}
	v, _ := e.unflatten(t, ts)
	return e.shapeFactsT(v, t)
}

// shapeFacts states what every slice header read from memory satisfies (0 <= len <= cap ...).
func (e *Enc) shapeFacts(v Val) Val {
	return e.shapeFactsT(v, nil)
}

func (e *Enc) shapeFactsT(v Val, t types.Type) Val {
	if tv, ok := v.(Term); ok && t != nil && tv.Sort == SInt && isInteger(t) && !strings.Contains(tv.S, "|q.") {
		// ground instance of the component typing fact (keeps quantifier-free models well typed)
		n := e.define("ld", tv)
		e.fact(e.typingFact(t, n, Term{}))
		return n
	}
	if sv, ok := v.(SliceV); ok {
		if strings.Contains(sv.Len.S, "|q.") || strings.Contains(sv.Base.S, "|q.") {
			return v
		}
		named := SliceV{e.define("ld.base", sv.Base), e.define("ld.off", sv.Off), e.define("ld.len", sv.Len), e.define("ld.cap", sv.Cap)}
		e.fact(e.sliceFact(named, Term{}))
		return named
	}
	return v
}

func (e *Enc) loadField(st *State, ref Term, S types.Type, i int) Val {
	ft := structOf(S).Field(i).Type()
	if e.subObj(ft) {
		return e.loadAt(st, e.subRef(S, i, ref), ft)
	}
	var ts []Term
	for _, l := range e.leaves(ft) {
		c := e.fieldComp(S, i, l)
		ts = append(ts, tSelect(e.lookup(st, c), ref))
	}
	v, _ := e.unflatten(ft, ts)
	return e.shapeFactsT(v, ft)
}

func (e *Enc) storeAt(st *State, ref Term, t types.Type, v Val) {

	if s := structOf(t); s != nil {
		sv, ok := v.(StructV)
		if !ok {
			e.unsup("store of non-struct value into struct")
		}
		for i := 0; i < s.NumFields(); i++ {
			e.storeField(st, ref, t, i, sv.Fields[i])
		}
		return
	}
	ts := e.flatten(v)
	for k, l := range e.leaves(t) {
		c := e.cellComp(t, l)
		e.update(st, c, tStore(e.lookup(st, c), ref, ts[k]))
	}
}

func (e *Enc) storeField(st *State, ref Term, S types.Type, i int, v Val) {
	ft := structOf(S).Field(i).Type()
	if e.subObj(ft) {
		e.storeAt(st, e.subRef(S, i, ref), ft, v)
		return
	}
	ts := e.flatten(v)
	for k, l := range e.leaves(ft) {
		c := e.fieldComp(S, i, l)
		e.update(st, c, tStore(e.lookup(st, c), ref, ts[k]))
	}
}

func (e *Enc) elemRef(sv SliceV, idx Term) Term {
	// idxadd is an uninterpreted alias of + (axiom below): element references then match quantifier
	// triggers syntactically instead of modulo arithmetic rewriting
	return app(SInt, "elemref", sv.Base, app(SInt, "idxadd", sv.Off, idx))
}

func (e *Enc) posStr(p token.Pos) string {
	if !p.IsValid() {
		return "?"
	}
	ps := e.P.Fset.Position(p)
	f := ps.Filename
	if strings.HasPrefix(f, e.P.Repo+"/") {
		f = f[len(e.P.Repo)+1:]
	}
	return fmt.Sprintf("%s:%d", f, ps.Line)
}

// interestTerms lists the input terms whose model values describe a counterexample:
// scalars, big.Int values, slice lengths and (two levels of) fields of struct pointers.
func (e *Enc) interestTerms(st *State, name string, v Val, t types.Type, depth int) (out []interestTerm) {
	defer func() {
		if r := recover(); r != nil {
			if _, ok := r.(unsupported); !ok {
				panic(r)
			}
		}
	}()
	switch vv := v.(type) {
	case Term:
		out = append(out, interestTerm{name, vv})
		if pt := derefType(t); pt != nil && vv.Sort == SInt {
			if e.isBigInt(pt) {
				out = append(out, interestTerm{"val(" + name + ")", tSelect(e.lookup(st, e.bigvalComp()), vv)})
			} else if sT := structOf(pt); sT != nil && depth < 2 && (isRepoType(pt)) {
				for i := 0; i < sT.NumFields(); i++ {
					ft := sT.Field(i).Type()
					if e.isStructT(ft) {
						continue
					}
					func() {
						defer func() { recover() }()
						fv := e.loadField(st, vv, pt, i)
						out = append(out, e.interestTerms(st, name+"."+sT.Field(i).Name(), fv, ft, depth+1)...)
					}()
				}
			}
		}
	case SliceV:
		out = append(out, interestTerm{"len(" + name + ")", vv.Len}, interestTerm{name + "==nil", tEq(vv.Base, tInt(0))})
	case StructV:
		sT := structOf(t)
		for i, f := range vv.Fields {
			if depth < 2 {
				out = append(out, e.interestTerms(st, name+"."+sT.Field(i).Name(), f, sT.Field(i).Type(), depth+1)...)
			}
		}
	}
	return out
}


// arrStr: the content of a byte-array VALUE (arrays are held as one value of an uninterpreted
// sort) as a string; injective (two arrays with the same content are the same value).
func (e *Enc) arrStr(av Term) Term {
	fn := "|arrstr " + string(av.Sort) + "|"
	fn = strings.ReplaceAll(fn, "||", "|")
	fn = "|arrstr " + strings.Trim(string(av.Sort), "|") + "|"
	inv := "|strarr " + strings.Trim(string(av.Sort), "|") + "|"
	if !e.declared[fn] {
		e.declFun(fn, []Sort{av.Sort}, SStr)
		e.declFun(inv, []Sort{SStr}, av.Sort)
		e.asserts = append(e.asserts, fmt.Sprintf("(forall ((a %s)) (! (= (%s (%s a)) a) :pattern ((%s a))))", av.Sort, inv, fn, fn))
	}
	return app(SStr, fn, av)
}
