#!/usr/bin/env python3
"""Must-fail / must-pass corpus for the vcheck engine.
Each entry of mutants.json is a textual edit of one repository file. The edit is applied to a scratch
copy of /repo (never to /repo itself), the property's check is run on the copy, and the outcome is
compared with the expectation: "violation" (a property-breaking change must fail an obligation) or
"pass" (a semantics-preserving change must not raise an alarm).
usage: run.py [-k substring] [-j N]"""
import json, os, shutil, subprocess, sys, tempfile, concurrent.futures, argparse

ap = argparse.ArgumentParser()
ap.add_argument("-k", default="")
ap.add_argument("-j", type=int, default=4)
ap.add_argument("--repo", default="/repo")
args = ap.parse_args()
here = os.path.dirname(os.path.abspath(__file__))
muts = json.load(open(os.path.join(here, "mutants.json")))
muts = [m for m in muts if args.k in m["id"] or args.k in m["property"]]
env = dict(os.environ, GOFLAGS="-mod=mod", GOPROXY="off", GOSUMDB="off", GOTOOLCHAIN="local")

def run(m):
    d = tempfile.mkdtemp(prefix="vselftest_")
    try:
        repo = os.path.join(d, "repo")
        subprocess.check_call(["rsync", "-a", "--exclude", ".git", args.repo + "/", repo + "/"])
        p = os.path.join(repo, m["file"])
        s = open(p).read()
        if m["old"] not in s:
            return m, "BROKEN-MUTANT (old text not found)", ""
        open(p, "w").write(s.replace(m["old"], m["new"], 1))
        out = os.path.join(d, "out")
        os.makedirs(out)
        shutil.copy("/verif/known_findings.json", out)
        r = subprocess.run(["/verif/bin/vcheck", "--repo", repo, "--verif", out, "--property", m["property"]], capture_output=True, text=True, env=env)
        viol = [l for l in r.stdout.splitlines() if l.startswith("VIOLATION")]
        got = "violation" if r.returncode == 1 and viol else ("pass" if r.returncode == 0 else "error")
        ok = got == m["expect"]
        if ok and m["expect"] == "violation" and m.get("obligation"):
            ok = any(m["obligation"] in v for v in viol)
        detail = "; ".join(v.split("obligation=")[1].split(" ")[0] for v in viol[:3]) if viol else r.stderr.strip()[-300:]
        return m, ("ok" if ok else "MISMATCH") + f" expect={m['expect']} got={got}", detail
    finally:
        shutil.rmtree(d, ignore_errors=True)

bad = 0
with concurrent.futures.ThreadPoolExecutor(args.j) as ex:
    for m, status, detail in ex.map(run, muts):
        print(f"{m['id']:40s} {m['property']} {status}  {detail[:160]}")
        if not status.startswith("ok"):
            bad += 1
print(f"{len(muts)} mutants, {bad} mismatches")
sys.exit(1 if bad else 0)
